"""Second, independent model for C05: TLC explores models/AddRecord.tla over the operation alphabet of the Python
explorer; this module (1) generates the TLA+ constants from mc/props/c05.py, (2) runs TLC with a full state-graph
dump, (3) replays EVERY edge of the dumped graph against the real Converter and compares abstract states, and
(4) compares TLC's set of reachable abstract converters with the Python explorer's, state for state.
"""

from __future__ import annotations

import os
import re
import shutil
import subprocess
import tempfile

HERE = os.path.dirname(os.path.abspath(__file__))


# ---- TLA+ value printing / parsing -------------------------------------------------------------------------------
ENC, DEC = {}, {}


def tla_str(s):
    """Alphabet strings are handed to TLC as opaque ASCII tokens (TLC's dot dump garbles non-ASCII characters);
    the mapping is a bijection and is undone when the dumped graph is read back."""
    if s not in ENC:
        tok = f"t{len(ENC)}"
        ENC[s] = tok
        DEC[tok] = s
    return '"' + ENC[s] + '"'


def tla_set(items):
    return "{" + ", ".join(items) + "}"


def tla_rec(r):
    return f"[p |-> {tla_str(r.prefix)}, u |-> {tla_str(r.uri_prefix)}, ps |-> {tla_set(map(tla_str, r.psyn))}, us |-> {tla_set(map(tla_str, r.usyn))}]"


def tla_op(r, cs, merge):
    return tla_rec(r)[:-1] + f", cs |-> {'TRUE' if cs else 'FALSE'}, merge |-> {'TRUE' if merge else 'FALSE'}]"


class P:
    """Recursive-descent parser for the TLA+ values TLC prints (strings, numbers, booleans, sets, records, tuples)."""

    def __init__(self, text):
        self.t, self.i = text, 0

    def ws(self):
        while self.i < len(self.t) and self.t[self.i] in " \n\t\r":
            self.i += 1

    def eat(self, tok):
        self.ws()
        assert self.t.startswith(tok, self.i), (tok, self.t[self.i : self.i + 40])
        self.i += len(tok)

    def peek(self, tok):
        self.ws()
        return self.t.startswith(tok, self.i)

    def value(self):
        self.ws()
        c = self.t[self.i]
        if c == '"':
            j = self.t.index('"', self.i + 1)
            s = self.t[self.i + 1 : j]
            self.i = j + 1
            return DEC.get(s, s)
        if c == "{":
            self.eat("{")
            out = []
            while not self.peek("}"):
                out.append(self.value())
                if self.peek(","):
                    self.eat(",")
            self.eat("}")
            return frozenset(out)
        if c == "[":
            self.eat("[")
            d = {}
            while not self.peek("]"):
                self.ws()
                m = re.match(r"[A-Za-z_][A-Za-z0-9_]*", self.t[self.i :])
                k = m.group(0)
                self.i += len(k)
                self.eat("|->")
                d[k] = self.value()
                if self.peek(","):
                    self.eat(",")
            self.eat("]")
            return tuple(sorted(d.items()))
        if c == "<":
            self.eat("<<")
            out = []
            while not self.peek(">>"):
                out.append(self.value())
                if self.peek(","):
                    self.eat(",")
            self.eat(">>")
            return tuple(out)
        m = re.match(r"TRUE|FALSE|-?\d+", self.t[self.i :])
        assert m, self.t[self.i : self.i + 40]
        self.i += len(m.group(0))
        return {"TRUE": True, "FALSE": False}.get(m.group(0), m.group(0))


def parse_state(label):
    """'/\\ recs = ... /\\ last = ... /\\ depth = n' -> dict"""
    out = {}
    parts = re.split(r"/\\ (\w+) = ", label)
    for name, text in zip(parts[1::2], parts[2::2]):
        out[name] = P(text.strip()).value()
    return out


def parse_dot(path):
    """Returns (states: id -> dict, edges: [(src, dst)], initial ids)."""
    states, edges, inits = {}, [], set()
    node = re.compile(r'^(-?\d+) \[label="(.*)"(,style = filled)?\];?$')
    edge = re.compile(r"^(-?\d+) -> (-?\d+)")
    for line in open(path, encoding="utf-8"):
        line = line.strip()
        m = node.match(line)
        if m:
            label = m.group(2).replace("\\n", "\n").replace('\\"', '"').replace("\\\\", "\\")
            states[m.group(1)] = parse_state(label)
            if m.group(3):
                inits.add(m.group(1))
            continue
        m = edge.match(line)
        if m:
            edges.append((m.group(1), m.group(2)))
    return states, edges, inits


def recs_key(recs):
    """TLA records (tuples of sorted items) -> frozenset of (p, u, frozenset ps, frozenset us)."""
    out = set()
    for r in recs:
        d = dict(r)
        out.add((d["p"], d["u"], frozenset(d["ps"]), frozenset(d["us"])))
    return frozenset(out)


def check_edge(edge):
    """Replay one edge of the TLA+ state graph on the real Converter. Returns None or a description of the disagreement."""
    from mc.impl import Converter, rec_key, to_record
    from mc.refmodel import mrec

    conv = Converter([to_record(mrec(p_, u_, ps, us)) for p_, u_, ps, us in edge["before"]])
    p_, u_, ps, us, cs, merge = edge["op"]
    n_before = len(conv.records)
    try:
        conv.add_record(to_record(mrec(p_, u_, ps, us)), case_sensitive=cs, merge=merge)
        rejected = False
    except ValueError:
        rejected = True
    got = frozenset((k[0], k[1], k[2], k[3]) for k in map(rec_key, conv.records))
    want = frozenset((a, b, frozenset(c), frozenset(d)) for a, b, c, d in edge["after"])
    kind = edge["kind"]
    where = f"{edge['before']} --add_record({edge['op']})-->"
    if rejected != (kind == "rejected"):
        return f"{where} TLA+ model says {kind}, implementation {'rejected' if rejected else 'accepted'}"
    if got != want:
        return f"{where} implementation reaches {sorted(map(repr, got))}, TLA+ model {sorted(map(repr, want))}"
    if kind != "rejected" and (len(got) > n_before) != (kind == "appended"):
        return f"{where} TLA+ model says {kind}, implementation {'appended' if len(got) > n_before else 'merged'}"
    return None


# ---- driver --------------------------------------------------------------------------------------------------------
def alphabet():
    from mc.props import c05

    recs = [r for r in c05.RECS + c05.AUX_RECS[:3] if r.pattern is None]
    inits = [i for i in c05.INITS if all(r.pattern is None for r in i)]
    return recs, inits


def run(depth=2, workers=4, keep=False):
    """Returns a report dict; raises AssertionError with a description on any disagreement."""
    from mc.impl import Converter, to_record, rec_key
    from mc.refmodel import mrec

    recs, inits = alphabet()
    work = tempfile.mkdtemp(prefix="tlc.", dir="/dev/shm" if os.path.isdir("/dev/shm") else None)
    report = {"depth": depth}
    try:
        shutil.copy(os.path.join(HERE, "AddRecord.tla"), work)
        ops = [tla_op(r, cs, merge) for r in recs for cs in (True, False) for merge in (False, True)]
        with open(os.path.join(work, "AddRecordMC.tla"), "w") as f:
            f.write("---- MODULE AddRecordMC ----\nEXTENDS AddRecord\n")
            f.write("MCOps == " + tla_set(ops) + "\n")
            f.write("MCInits == " + tla_set(tla_set(map(tla_rec, i)) for i in inits) + "\n")
            strs = sorted({x for r in list(recs) + [q for i in inits for q in i] for x in (*r.prefixes, *r.uri_prefixes)})
            classes = sorted({x.casefold() for x in strs})
            body = " [] ".join(f's = {tla_str(a)} -> "F{classes.index(a.casefold())}"' for a in strs)
            f.write("MCFold(s) == CASE " + body + " [] OTHER -> s\n")
            f.write("====\n")
        with open(os.path.join(work, "AddRecordMC.cfg"), "w") as f:
            f.write(f"SPECIFICATION Spec\nCONSTANTS\n Ops <- MCOps\n Inits <- MCInits\n Fold <- MCFold\n Depth = {depth}\nINVARIANTS Unique WellFormed\n")
        cmd = ["tlc", "-workers", str(workers), "-noGenerateSpecTE", "-deadlock", "-metadir", os.path.join(work, "meta"),
               "-dump", "dot", os.path.join(work, "graph"), "AddRecordMC"]
        p = subprocess.run(cmd, cwd=work, capture_output=True, text=True, timeout=3600)
        report["tlc_exit"] = p.returncode
        m = re.search(r"(\d+) states generated, (\d+) distinct states found", p.stdout)
        assert p.returncode == 0 and m, "TLC failed or found an invariant violation:\n" + p.stdout[-2000:] + p.stderr[-500:]
        report["tlc_states_generated"], report["tlc_distinct_states"] = int(m.group(1)), int(m.group(2))
        states, edges, init_ids = parse_dot(os.path.join(work, "graph.dot"))
        assert len(states) == report["tlc_distinct_states"], (len(states), report["tlc_distinct_states"])
        report["tlc_edges"] = len(edges)
        # ---- replay every edge against the implementation ---------------------------------------------------------
        validated = 0
        outcomes = {}
        disagreements = []
        for src, dst in edges:
            s, d = states[src], states[dst]
            last = dict(d["last"])
            op = dict(last["op"])
            edge = {
                "before": [[p_, u_, sorted(ps), sorted(us)] for (p_, u_, ps, us) in sorted(recs_key(s["recs"]), key=repr)],
                "op": [op["p"], op["u"], sorted(op["ps"]), sorted(op["us"]), op["cs"], op["merge"]],
                "kind": last["kind"],
                "after": [[p_, u_, sorted(ps), sorted(us)] for (p_, u_, ps, us) in sorted(recs_key(d["recs"]), key=repr)],
            }
            msg = check_edge(edge)
            if msg:
                if len(disagreements) < 5:
                    disagreements.append((msg, edge))
                continue
            outcomes[last["kind"]] = outcomes.get(last["kind"], 0) + 1
            validated += 1
        report["disagreements"] = disagreements
        report["edges_validated_against_impl"] = validated
        report["edge_outcomes"] = outcomes
        # ---- the same space explored by the Python explorer's machinery -------------------------------------------
        from mc.refmodel import Model

        py_states = set()
        frontier = []
        for i in inits:
            k = frozenset((r.prefix, r.uri_prefix, frozenset(r.psyn), frozenset(r.usyn)) for r in i)
            py_states.add(k)
            frontier.append(list(i))
        for _ in range(depth):
            nxt = []
            for cur in frontier:
                for r in recs:
                    for cs in (True, False):
                        for merge in (False, True):
                            conv = Converter([to_record(x) for x in cur])
                            try:
                                conv.add_record(to_record(r), case_sensitive=cs, merge=merge)
                            except ValueError:
                                continue
                            k = frozenset((a, b, c, d_) for a, b, c, d_, _ in map(rec_key, conv.records))
                            if k not in py_states:
                                py_states.add(k)
                                from mc.impl import from_record

                                nxt.append([from_record(x) for x in conv.records])
            frontier = nxt
        tlc_abstract = {recs_key(s["recs"]) for s in states.values()}
        report["tlc_abstract_converters"] = len(tlc_abstract)
        report["python_abstract_converters"] = len(py_states)
        report["state_sets_equal"] = tlc_abstract == py_states
        report["only_tlc"] = len(tlc_abstract - py_states)
        report["only_python"] = len(py_states - tlc_abstract)
        return report
    finally:
        if not keep:
            shutil.rmtree(work, ignore_errors=True)


if __name__ == "__main__":
    import json
    import sys

    sys.path.insert(0, os.path.dirname(HERE))
    print(json.dumps(run(int(sys.argv[1]) if len(sys.argv) > 1 else 2), indent=1))
