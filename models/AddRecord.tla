------------------------------ MODULE AddRecord ------------------------------
(***************************************************************************)
(* Abstract model of curies.Converter.add_record (match - merge - reject). *)
(* A converter is a set of records; a record has a canonical CURIE prefix, *)
(* a canonical URI prefix and two synonym sets.  The operation alphabet    *)
(* (Ops), the initial converters (Inits), the depth bound and the case     *)
(* folding function are supplied by the generated module AddRecordMC,      *)
(* which models/conform.py writes from the alphabet of the Python explorer *)
(* (mc/props/c05.py), so both explore the same space by construction.      *)
(*                                                                         *)
(* The operation taken is recorded in the state variable `last`, so every  *)
(* edge of the state graph dumped by TLC identifies its operation and can  *)
(* be replayed against the implementation (models/conform.py replays ALL   *)
(* edges, not only counterexamples).                                       *)
(***************************************************************************)
EXTENDS Naturals, FiniteSets

CONSTANTS Ops,      \* set of [p, u, ps, us, cs, merge]
          Inits,    \* set of sets of records
          Depth,    \* bound on the number of operations
          Fold(_)   \* case folding of the alphabet's strings (generated from Python's str.casefold)

VARIABLES recs, last, depth
vars == <<recs, last, depth>>

Prefixes(r) == {r.p} \cup r.ps
Uris(r)     == {r.u} \cup r.us

Eq(a, b, cs) == IF cs THEN a = b ELSE Fold(a) = Fold(b)

Match(e, r, cs) ==
    \/ \E a \in Prefixes(r), b \in Prefixes(e) : Eq(a, b, cs)
    \/ \E a \in Uris(r), b \in Uris(e) : Eq(a, b, cs)

Merged(e, r) == [p |-> e.p, u |-> e.u,
                 ps |-> (e.ps \cup Prefixes(r)) \ {e.p},
                 us |-> (e.us \cup Uris(r)) \ {e.u}]

Rec(op) == [p |-> op.p, u |-> op.u, ps |-> op.ps, us |-> op.us]

Init == /\ recs \in Inits
        /\ last = [kind |-> "init"]
        /\ depth = 0

Apply(op) ==
    LET r == Rec(op)
        hits == {e \in recs : Match(e, r, op.cs)}
    IN  /\ depth < Depth
        /\ depth' = depth + 1
        /\ IF Cardinality(hits) > 1 \/ (Cardinality(hits) = 1 /\ ~op.merge)
             THEN /\ recs' = recs
                  /\ last' = [kind |-> "rejected", op |-> op]
             ELSE IF Cardinality(hits) = 1
               THEN LET e == CHOOSE e \in hits : TRUE
                    IN /\ recs' = (recs \ {e}) \cup {Merged(e, r)}
                       /\ last' = [kind |-> "merged", op |-> op]
               ELSE /\ recs' = recs \cup {r}
                    /\ last' = [kind |-> "appended", op |-> op]

Next == \E op \in Ops : Apply(op)

Spec == Init /\ [][Next]_vars

\* C04/C05 uniqueness: no CURIE prefix and no URI prefix is owned by two different records
Unique == \A e1, e2 \in recs : e1 # e2 =>
             /\ Prefixes(e1) \cap Prefixes(e2) = {}
             /\ Uris(e1) \cap Uris(e2) = {}

\* a record never lists its own canonical value among its synonyms
WellFormed == \A e \in recs : e.p \notin e.ps /\ e.u \notin e.us
=============================================================================
