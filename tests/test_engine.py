"""Self-test of the explorer on a toy system with a seeded bug that must be found at the expected depth."""
import sys, os
sys.path.insert(0, os.path.dirname(os.path.dirname(os.path.abspath(__file__))))
from mc import engine

# toy module: a counter that must stay below 3; units are operation histories of length <= depth
import types
toy = types.ModuleType("toy_mc_module")


def run_unit(unit, ctx):
    import itertools as it
    for n in range(unit["depth"] + 1):
        for hist in it.product("id", repeat=n):       # i = increment, d = decrement
            v = 0
            for op in hist:
                v += 1 if op == "i" else -1
            ctx.count("transitions", len(hist))
            ctx.state(v)
            if v >= 3:
                ctx.violation("toy/overflow", f"history {hist}", {"hist": list(hist)})


toy.run_unit = run_unit
sys.modules["toy_mc_module"] = toy


def test_finds_bug_only_at_depth_3():
    m = engine.run_units("toy_mc_module", [{"depth": 2}], procs=1)
    assert not m.violations and len(m.states) == 5
    m = engine.run_units("toy_mc_module", [{"depth": 3}], procs=1)
    assert m.nviol == 1 and m.violations[0]["case"] == {"hist": ["i", "i", "i"]}


def test_merge_is_deterministic_and_parallel():
    units = [{"depth": d} for d in (0, 1, 2, 3, 4)]
    a = engine.run_units("toy_mc_module", units, procs=4, seed=0)
    b = engine.run_units("toy_mc_module", units, procs=2, seed=3)
    assert a.counters == b.counters and a.states == b.states and [v["case"] for v in a.violations] == [v["case"] for v in b.violations]


def test_watchdog_and_crash_classification():
    hang = types.ModuleType("toy_hang")

    def run_unit(unit, ctx):
        while True:
            pass

    hang.run_unit = run_unit
    sys.modules["toy_hang"] = hang
    r = engine.run_one("toy_hang", 0, {}, 1)
    assert r["violations"] and r["violations"][0]["signature"].startswith("hang/")
    crash = types.ModuleType("toy_crash")
    crash.run_unit = lambda unit, ctx: 1 / 0
    sys.modules["toy_crash"] = crash
    r = engine.run_one("toy_crash", 0, {}, 5)
    assert r["error"] and not r["violations"]        # a crash outside library code is a harness error, not a verdict


def test_chunks():
    assert engine.chunks(range(10), 3) == [[0, 1, 2, 3], [4, 5, 6], [7, 8, 9]]
    assert engine.chunks([], 4) == [[]]
