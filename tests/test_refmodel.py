"""Unit tests of the reference model on hand-computed cases (no curies import)."""
import sys, os
sys.path.insert(0, os.path.dirname(os.path.dirname(os.path.abspath(__file__))))
from mc.refmodel import Model, mrec, chain, subconverter


def m():
    return Model([mrec("a", "x", ["a1"], ["xy"]), mrec("b", "x:", [], [""]), mrec("", "q")], ":")


def test_longest_prefix():
    mm = m()
    assert mm.parse_uri("xyz") == ("a", "z")          # xy (synonym of a) beats x
    assert mm.parse_uri("x:1") == ("b", "1")          # x: beats x
    assert mm.parse_uri("x1") == ("a", "1")
    assert mm.parse_uri("zzz") == ("b", "zzz")        # the empty URI prefix matches everything
    assert mm.parse_uri("") == ("b", "")
    assert mm.compress("q1") == ":1"                  # empty CURIE prefix
    assert Model([mrec("a", "x")]).parse_uri("y") is None


def test_expand():
    mm = m()
    assert mm.expand("a1:5") == "x5"
    assert mm.expand(":5") == "q5"
    assert mm.expand("a:5:6") == "x5:6"               # first delimiter only
    assert mm.expand("nodelim") is None and mm.expand("zz:1") is None
    assert mm.expand_all("a:1") == ("x1", ["xy1"])
    assert mm.standardize_curie("a1:1") == "a:1"
    assert mm.standardize_uri("xy1") == "x1"
    assert Model([mrec("a", "x")], "::").expand("a::b::c") == "xb::c"


def test_parse_precedence():
    mm = Model([mrec("x", "x:"), mrec("a", "z")], ":")
    assert mm.is_uri("x:1") and mm.is_curie("x:1")
    assert mm.parse("x:1") == ("x", "1")              # URI parse: prefix x: , identifier 1
    mm2 = Model([mrec("x", "zz"), mrec("a", "x:")], ":")
    assert mm2.parse("x:1") == ("a", "1")             # URI wins over CURIE (which would give ("x","1"))
    assert mm2.compress_or_standardize("x:1") == "a:1"
    assert mm2.expand_or_standardize("x:1") == "x:1"


def test_validity_and_prefix_free():
    assert not Model([mrec("a", "x"), mrec("b", "y", ["a"])]).valid()
    assert not Model([mrec("a", "x", [], ["y"]), mrec("b", "y")]).valid()
    assert Model([mrec("a", "x"), mrec("A", "X")]).valid()
    assert Model([mrec("a", "x", ("b", "b"))]).valid()   # repeats inside one record are not a clash between records
    assert Model([mrec("a", "x"), mrec("b", "y")]).prefix_free()
    assert not Model([mrec("a", "x"), mrec("b", "xy")]).prefix_free()
    assert not Model([mrec("a", ""), mrec("b", "y")]).prefix_free()


def test_add_record():
    mm = Model([mrec("a", "x"), mrec("b", "y")])
    assert mm.add_record(mrec("a", "z"))[0] == "rejected" and len(mm.records) == 2
    assert mm.add_record(mrec("c", "z", ["a"], ["y"]), merge=True)[0] == "rejected"      # bridges two
    assert mm.add_record(mrec("A", "z"), case_sensitive=True)[0] == "appended"
    mm = Model([mrec("a", "x", [], [], "^1$")])
    assert mm.add_record(mrec("A", "X", ["q"], [], "^2$"), case_sensitive=False, merge=True) == ("merged", 0)
    assert mm.records[0].key() == ("a", "x", frozenset({"A", "q"}), frozenset({"X"}), "^1$")


def test_chain_and_sub():
    c1, c2 = Model([mrec("a", "x")]), Model([mrec("a", "z", ["b"])])
    r = chain([c1, c2])
    assert r.record_set() == {("a", "x", frozenset({"b"}), frozenset({"z"}), None)}
    assert chain([Model([mrec("a", "x"), mrec("b", "y")]), Model([mrec("a", "y")])]) is None
    s = subconverter(Model([mrec("a", "x", ["a1"]), mrec("b", "y")]), {"a1", "zz"})
    assert [r.prefix for r in s.records] == ["a"]
