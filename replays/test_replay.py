"""Plain unit test that replays recorded violations without the explorer.

Every /verif/replays/*.json (written when a check reports a violation) is re-executed on fresh objects through the
property module's ``replay(case)``; the test fails while the violation is still present in the tree under test
(CURIES_SRC, default /repo/src) and passes once it is gone.   run:  cd /verif && /venv/bin/python -m pytest -q replays
"""
import glob
import importlib
import json
import os
import sys

import pytest

VERIF = os.path.dirname(os.path.dirname(os.path.abspath(__file__)))
sys.path.insert(0, VERIF)
FILES = sorted(glob.glob(os.path.join(VERIF, "replays", "*.json")))


@pytest.mark.parametrize("path", FILES or [None])
def test_replay(path):
    if path is None:
        pytest.skip("no recorded violations")
    body = json.load(open(path))
    from mc import impl  # noqa  (imports the tree under test)

    mod = importlib.import_module(f"mc.props.{body['property'].lower()}")
    if body["signature"].startswith(("crash/", "hang/", "nondeterminism/")):
        pytest.skip("unit-level replay: use ./check <ID> --replay <file>")
    fails = mod.replay(body["case"])
    assert not fails, f"{body['property']}: still violated: {fails[:2]}"
