"""Stub standing in for the python-multipart distribution, which is neither installed nor in the wheelhouse.

FastAPI only probes for the package (and its version) when a router declares a ``Form`` parameter; with
this stub on sys.path the mapping-service router can be *constructed*, so that FastAPI GET is exercised.
FastAPI POST (which would need the real parser) is not exercised - see DESIGN.md section 4.
"""

__version__ = "0.0.99"
