"""Reference model of a curies converter.

Deliberately boring: a converter is a list of records (plain tuples) plus a delimiter, and every query is a
linear scan using ``str.startswith`` / ``str.partition``.  Nothing here imports or calls ``curies``; no dict
index, no trie.  It defines only what the properties define: implementation-only behaviour (message texts,
order of synonym lists, order of the record list) is not modelled and never compared.
"""

from __future__ import annotations

from typing import Iterable, NamedTuple, Optional


class MRec(NamedTuple):
    prefix: str
    uri_prefix: str
    psyn: tuple = ()
    usyn: tuple = ()
    pattern: Optional[str] = None

    @property
    def prefixes(self):
        return (self.prefix, *self.psyn)

    @property
    def uri_prefixes(self):
        return (self.uri_prefix, *self.usyn)

    def key(self):
        """Order-insensitive value of a record (synonyms as sets)."""
        return (self.prefix, self.uri_prefix, frozenset(self.psyn), frozenset(self.usyn), self.pattern or None)


def mrec(prefix, uri_prefix, psyn=(), usyn=(), pattern=None) -> MRec:
    return MRec(prefix, uri_prefix, tuple(psyn), tuple(usyn), pattern)


class Model:
    """The model converter."""

    def __init__(self, records: Iterable[MRec] = (), delimiter: str = ":", hook=None):
        self.records = list(records)
        self.delimiter = delimiter
        self.hook = hook   # documented extension point standardize_identifier(prefix, identifier) -> str | None

    def copy(self) -> "Model":
        return Model(list(self.records), self.delimiter, self.hook)

    # -- validity -------------------------------------------------------------------------------------------
    def clashes(self):
        """Return (uri_clashes, prefix_clashes): sets of (i, j, string) with i < j claiming the same string."""
        uri, pre = set(), set()
        n = len(self.records)
        for i in range(n):
            for j in range(i + 1, n):
                for s in self.records[i].uri_prefixes:
                    for t in self.records[j].uri_prefixes:
                        if s == t:
                            uri.add((i, j, s))
                for s in self.records[i].prefixes:
                    for t in self.records[j].prefixes:
                        if s == t:
                            pre.add((i, j, s))
        return uri, pre

    def valid(self) -> bool:
        u, p = self.clashes()
        return not u and not p

    def record_set(self):
        return frozenset(r.key() for r in self.records)

    # -- primitive lookups ------------------------------------------------------------------------------------
    def owner(self, prefix: str) -> Optional[MRec]:
        """The unique record having ``prefix`` as canonical prefix or synonym."""
        for r in self.records:
            for p in r.prefixes:
                if p == prefix:
                    return r
        return None

    def longest(self, uri: str):
        """(record, matched URI prefix) for the longest registered URI prefix that is a prefix of uri."""
        best = None
        for r in self.records:
            for up in r.uri_prefixes:
                if uri.startswith(up):
                    if best is None or len(up) > len(best[1]):
                        best = (r, up)
        return best

    def prefix_free(self) -> bool:
        """No registered URI prefix is a proper prefix of another one."""
        ups = [up for r in self.records for up in r.uri_prefixes]
        for a in ups:
            for b in ups:
                if a != b and b.startswith(a):
                    return False
        return True

    # -- queries ----------------------------------------------------------------------------------------------
    def fmt(self, prefix, identifier):
        return prefix + self.delimiter + identifier

    def parse_uri(self, uri):
        hit = self.longest(uri)
        if hit is None:
            return None
        r, up = hit
        return (r.prefix, uri[len(up):])

    def compress(self, uri):
        ref = self.parse_uri(uri)
        return None if ref is None else self.fmt(*ref)

    def split(self, curie):
        if not self.delimiter:
            return None      # the empty delimiter occurs nowhere
        head, sep, tail = curie.partition(self.delimiter)
        if not sep:
            return None
        return head, tail

    def parse_curie(self, curie):
        parts = self.split(curie)
        if parts is None:
            return None
        r = self.owner(parts[0])
        if r is None:
            return None
        ident = parts[1]
        if self.hook is not None:
            ident = self.hook(r.prefix, ident)
            if ident is None:
                return None
        return (r.prefix, ident)

    def expand_pair(self, prefix, identifier):
        r = self.owner(prefix)
        return None if r is None else r.uri_prefix + identifier

    def expand(self, curie):
        ref = self.parse_curie(curie)
        if ref is None:
            return None
        return self.expand_pair(*ref)

    def expand_pair_all(self, prefix, identifier):
        """(first, multiset-of-rest) or None."""
        r = self.owner(prefix)
        if r is None:
            return None
        return r.uri_prefix + identifier, sorted(u + identifier for u in r.usyn)

    def expand_all(self, curie):
        ref = self.parse_curie(curie)
        if ref is None:
            return None
        return self.expand_pair_all(*ref)

    def standardize_prefix(self, prefix):
        r = self.owner(prefix)
        return None if r is None else r.prefix

    def standardize_curie(self, curie):
        ref = self.parse_curie(curie)
        return None if ref is None else self.fmt(*ref)

    def standardize_uri(self, uri):
        hit = self.longest(uri)
        if hit is None:
            return None
        r, up = hit
        return r.uri_prefix + uri[len(up):]

    def is_uri(self, s):
        return self.longest(s) is not None

    def is_curie(self, s):
        return self.parse_curie(s) is not None

    def parse(self, s):
        if self.is_uri(s):
            return self.parse_uri(s)
        if self.is_curie(s):
            return self.parse_curie(s)
        return None

    def compress_or_standardize(self, s):
        ref = self.parse(s)
        return None if ref is None else self.fmt(*ref)

    def expand_or_standardize(self, s):
        ref = self.parse(s)
        if ref is None:
            return None
        return self.owner(ref[0]).uri_prefix + ref[1]

    def all_prefixes(self):
        return {p for r in self.records for p in r.prefixes}

    def all_uri_prefixes(self):
        return {u for r in self.records for u in r.uri_prefixes}

    # -- mutation: add_record (match / merge / reject) ----------------------------------------------------------
    def match(self, new: MRec, case_sensitive: bool = True):
        """Indices of existing records sharing a (case-folded) CURIE prefix or URI prefix with ``new``."""

        def eq(a, b):
            return a == b if case_sensitive else a.casefold() == b.casefold()

        hits = []
        for i, r in enumerate(self.records):
            hit = False
            for a in new.prefixes:
                for b in r.prefixes:
                    if eq(a, b):
                        hit = True
            for a in new.uri_prefixes:
                for b in r.uri_prefixes:
                    if eq(a, b):
                        hit = True
            if hit:
                hits.append(i)
        return hits

    def add_record(self, new: MRec, case_sensitive: bool = True, merge: bool = False):
        """Return ('rejected', None) / ('appended', idx) / ('merged', idx); mutate only on success."""
        hits = self.match(new, case_sensitive)
        if len(hits) > 1:
            return ("rejected", None)
        if len(hits) == 1:
            if not merge:
                return ("rejected", None)
            i = hits[0]
            old = self.records[i]
            psyn = list(old.psyn)
            for p in new.prefixes:
                if p != old.prefix and p not in psyn:
                    psyn.append(p)
            usyn = list(old.usyn)
            for u in new.uri_prefixes:
                if u != old.uri_prefix and u not in usyn:
                    usyn.append(u)
            self.records[i] = MRec(old.prefix, old.uri_prefix, tuple(psyn), tuple(usyn), old.pattern)
            return ("merged", i)
        self.records.append(new)
        return ("appended", len(self.records) - 1)


def chain(models, case_sensitive: bool = True):
    """Priority union: fold of add_record(merge=True). Returns Model or None when a record bridges two."""
    models = list(models)
    rv = Model([], models[0].delimiter if models else ":")   # the first converter has priority, its CURIE syntax included
    for m in models:
        for r in m.records:
            outcome, _ = rv.add_record(r, case_sensitive=case_sensitive, merge=True)
            if outcome == "rejected":
                return None
    return rv


def subconverter(model: Model, prefixes) -> Model:
    prefixes = set(prefixes)
    return Model([r for r in model.records if any(p in prefixes for p in r.prefixes)], model.delimiter)
