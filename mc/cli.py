"""./check <ID> [--tier quick|thorough] [--replay FILE]

exit 0  property held on everything explored (KNOWN-FINDING lines for listed open findings)
exit 1  + line "VIOLATION property=<id> replay=<path>" for every unlisted violation
exit 2  harness error (vacuous exploration, crashed unit, irreproducible failure) - never a verdict
"""

from __future__ import annotations

import argparse
import hashlib
import importlib
import json
import os
import sys
import time

VERIF = os.path.dirname(os.path.dirname(os.path.abspath(__file__)))


def load_findings():
    path = os.path.join(VERIF, "known_findings.json")
    if not os.path.exists(path):
        return []
    data = json.load(open(path))
    return data.get("open", [])


def jsonable(o):
    if isinstance(o, (str, int, float, bool)) or o is None:
        return o
    if isinstance(o, dict):
        return {str(k): jsonable(v) for k, v in o.items()}
    if isinstance(o, (list, tuple)):
        return [jsonable(v) for v in o]
    if isinstance(o, (set, frozenset)):
        return sorted((jsonable(v) for v in o), key=repr)
    return repr(o)


def write_replay(prop, tier, violation):
    rdir = os.environ.get("VERIF_REPLAY_DIR") or os.path.join(VERIF, "replays")
    os.makedirs(rdir, exist_ok=True)
    body = {
        "property": prop,
        "tier": tier,
        "signature": violation["signature"],
        "message": violation["message"],
        "case": jsonable(violation["case"]),
        "unit": jsonable(violation.get("unit")),
        "curies_src": os.environ.get("CURIES_SRC", "/repo/src"),
        "hashseed": os.environ.get("PYTHONHASHSEED", "0"),
    }
    digest = hashlib.sha1(json.dumps(body, sort_keys=True).encode()).hexdigest()[:12]
    path = os.path.join(rdir, f"{prop}-{digest}.json")
    with open(path, "w") as f:
        json.dump(body, f, indent=1, sort_keys=True, ensure_ascii=True)
    return path


def fresh_unit(mod, unit):
    """Run one unit in a fresh forked process (as the exploration does) and return its result record."""
    from .engine import _run_forked

    return _run_forked([(mod.__name__, 0, unit, 900)], 1)[0]


def replay_in_child(mod, case):
    """Signatures produced by mod.replay(case), computed in a forked child of this (still pristine) process."""
    import multiprocessing as mp

    ctx = mp.get_context("fork")
    parent_end, child_end = ctx.Pipe(duplex=False)

    def work(conn):
        try:
            out = [s for s, _ in mod.replay(case)]
        except Exception as e:  # noqa
            out = [f"replay-raised/{type(e).__name__}"]
        conn.send(out)
        conn.close()

    p = ctx.Process(target=work, args=(child_end,), daemon=True)
    p.start()
    child_end.close()
    try:
        out = parent_end.recv() if parent_end.poll(900) else []
    except (EOFError, OSError):
        out = []
    p.join(5)
    if p.is_alive():
        p.kill()
    return out


def confirm(mod, violation):
    """Re-execute the single case twice on fresh objects. Returns 'case', 'unit' or None."""
    sig = violation["signature"]
    if sig.startswith("hang/"):
        return "unit"
    if sig.startswith("crash/"):
        unit = violation.get("unit")
        ra, rb = fresh_unit(mod, unit), fresh_unit(mod, unit)
        ok = all(any(v["signature"] == sig for v in r["violations"]) for r in (ra, rb))
        return "unit" if ok else None
    # (each replay in its own forked child, so nothing a replay leaves behind in this process can reach a later one)
    a = replay_in_child(mod, violation["case"])
    b = replay_in_child(mod, violation["case"])
    if sig in a and sig in b:
        return "case"
    # history-dependent failure (state leaking between cases): fall back to re-running the whole unit twice, each time in a
    # fresh process - exactly the conditions under which the exploration ran it
    unit = violation.get("unit")
    if unit is None:
        return None
    ra, rb = fresh_unit(mod, unit), fresh_unit(mod, unit)
    if any(v["signature"] == sig for v in ra["violations"]) and any(v["signature"] == sig for v in rb["violations"]):
        return "unit"
    return None


def do_replay(mod, prop, path):
    body = json.load(open(path))
    want = str(body.get("hashseed", "0"))
    if want != os.environ.get("PYTHONHASHSEED", "0") and not os.environ.get("VERIF_REPLAY_REEXEC"):
        import subprocess

        env = dict(os.environ, VERIF_HASHSEED=want, VERIF_REPLAY_REEXEC="1")
        return subprocess.call([os.path.join(VERIF, "check"), prop, "--replay", path], env=env)
    fails = [] if body["signature"].startswith(("crash/", "hang/")) else mod.replay(body["case"])
    if not fails and body.get("unit") is not None:
        from .engine import run_one

        r = run_one(mod.__name__, 0, body["unit"], 900)
        fails = [(v["signature"], v["message"]) for v in r["violations"]]
    if fails:
        for s, m in fails:
            print(f"reproduced: {s}: {m}")
        print(f"VIOLATION property={prop} replay={path}")
        return 1
    print("replay: no violation observed on this tree")
    return 0


def hashseed_children(prop, tier, seeds, digest):
    """Treat the string hash seed as an environment answer to be enumerated: re-run the whole sweep in child
    interpreters under other PYTHONHASHSEED values; each must hold and must explore the same space with the same results."""
    import subprocess

    report, status = {}, 0
    for k in seeds:
        env = dict(os.environ, VERIF_HASHSEED=str(k))
        p = subprocess.run([os.path.join(VERIF, "check"), prop, "--tier", tier, "--digest-only"], env=env, capture_output=True, text=True)
        d = next((l.split()[1] for l in p.stdout.splitlines() if l.startswith("DIGEST ")), None)
        report[str(k)] = {"exit": p.returncode, "digest": d}
        if p.returncode == 1:
            for l in p.stdout.splitlines():
                if l.startswith(("violation:", "VIOLATION ")):
                    print(l + (f"  (under PYTHONHASHSEED={k})" if l.startswith("violation:") else ""))
            status = 1
        elif p.returncode != 0:
            print(f"harness error: child run under PYTHONHASHSEED={k} exited {p.returncode}: {p.stdout[-300:]}{p.stderr[-300:]}")
            status = max(status, 2)
        elif d != digest:
            path = write_replay(prop, tier, {"signature": "nondeterminism/results-depend-on-hash-seed", "message": f"result digest {d} under PYTHONHASHSEED={k} differs from {digest} under the default seed", "case": {"hashseed": k}})
            print(f"violation: nondeterminism/results-depend-on-hash-seed: digest under PYTHONHASHSEED={k} differs")
            print(f"VIOLATION property={prop} replay={path}")
            status = 1
    return report, status


def main(argv=None):
    ap = argparse.ArgumentParser()
    ap.add_argument("prop")
    ap.add_argument("--tier", default=os.environ.get("VERIF_TIER", "quick"), choices=["quick", "thorough"])
    ap.add_argument("--replay")
    ap.add_argument("--procs", type=int, default=0)
    ap.add_argument("--digest-only", action="store_true", help="child mode: no evidence, print DIGEST line")
    args = ap.parse_args(argv)
    prop = args.prop.upper()
    seed = int(os.environ.get("VERIF_SEED", "0") or 0)
    t0 = time.time()

    from . import impl  # noqa  (bootstraps the import of the tree under test)

    mod = importlib.import_module(f"mc.props.{prop.lower()}")
    if args.replay:
        return do_replay(mod, prop, args.replay)

    from .engine import run_units
    from .evidence import write_evidence

    if hasattr(mod, "explore"):
        units = []
        merged = mod.explore(args.tier, seed, procs=args.procs or None)
    else:
        units = mod.units(args.tier, seed)
        merged = run_units(mod.__name__, units, timeout=getattr(mod, "UNIT_TIMEOUT", 900), procs=args.procs or None, seed=seed)
    if hasattr(mod, "finalize"):
        mod.finalize(merged, args.tier, seed)

    crashed = len(merged.errors)
    if crashed:
        for idx, err in merged.errors[:3]:
            print(f"HARNESS ERROR in unit {idx}:\n{err}")
        if not merged.violations:
            print(f"harness error: {crashed} unit(s) crashed; no verdict")
            return 2
        # other units reported violations: each is confirmed by replay against the code below, and a confirmed violation is a
        # verdict whatever else crashed; without one the run stays a harness error
        print(f"harness error: {crashed} unit(s) crashed; continuing with the violations the other units reported")

    # anti-vacuity: counters that must be positive by construction
    required = mod.required_counters(args.tier) if hasattr(mod, "required_counters") else []
    vac = [k for k in required if merged.counters.get(k, 0) <= 0]
    if vac and not merged.violations:
        print(f"harness error: vacuous exploration, counters at zero: {vac}")
        return 2

    findings = [f for f in load_findings() if f.get("property") == prop]
    known_sigs = {f["signature"]: f for f in findings}

    def is_known(v):
        """A listed finding is identified by its signature AND (when recorded) its minimal witness; the first witness of a
        signature is deterministic (units are merged in order), so the same defect always presents the same witness."""
        f = known_sigs.get(v["signature"])
        return f is not None and ("case" not in f or jsonable(f["case"]) == jsonable(v["case"]))

    by_sig = {}
    for v in merged.violations:
        by_sig.setdefault(v["signature"], v)
    new, known, irreproducible = [], [], []
    for n_confirmed, (sig, v) in enumerate(by_sig.items()):
        if n_confirmed >= 12 and new:
            break   # enough distinct confirmed signatures for a verdict; the rest stay listed in the evidence counters
        how = confirm(mod, v)
        if how is None:
            irreproducible.append(v)
            continue
        v["confirmed_by"] = how
        (known if is_known(v) else new).append(v)

    status = 0
    for v in known:
        print(f"KNOWN-FINDING: property={prop} {v['signature']}: {known_sigs[v['signature']].get('what', v['message'])}")
    replay_paths = []
    for v in new:
        path = write_replay(prop, args.tier, v)
        replay_paths.append(path)
        print(f"violation: {v['signature']}: {v['message']}")
        print(f"VIOLATION property={prop} replay={path}")
        status = 1
    digest = hashlib.sha1((repr(sorted(merged.outcomes)) + hex(getattr(merged, "dig", 0))).encode()).hexdigest()
    hs_report = None
    if getattr(mod, "HASHSEEDS", None) and args.tier in getattr(mod, "HASHSEED_TIERS", ("thorough",)) and not args.digest_only and status == 0 and not irreproducible:
        hs_report, hs_status = hashseed_children(prop, args.tier, mod.HASHSEEDS, digest)
        status = max(status, hs_status)
        merged.counters["hash_seeds_explored"] = 1 + sum(1 for r in hs_report.values() if r["exit"] == 0)
    if args.digest_only:
        print(f"DIGEST {digest}")
        return 2 if (irreproducible or crashed) and status == 0 else status
    wall = round(time.time() - t0, 3)
    write_evidence(mod, prop, args.tier, seed, merged, wall, len(new), [v["signature"] for v in known], units)
    c = merged.counters
    print(
        f"{prop} tier={args.tier} seed={seed} units={merged.units} states={getattr(merged, 'states_override', None) or len(merged.states)} "
        f"transitions={c.get('transitions', 0)} evaluations={c.get('evaluations', 0)} "
        f"validated={c.get('validated', 0)} nontrivial={getattr(merged, 'nontrivial_override', None) or len(merged.nontrivial)} outcomes={len(merged.outcomes)} "
        f"violating_cases={merged.nviol} wall={wall}s"
    )
    if crashed and status == 0:
        print(f"harness error: {crashed} unit(s) crashed and no new violation was confirmed; no verdict")
        return 2
    if irreproducible and status == 0:
        for v in irreproducible[:3]:
            print(f"harness error: failure not reproducible on replay: {v['signature']}: {v['message']}")
        return 2
    return status


if __name__ == "__main__":
    try:
        code = main()
    except SystemExit:
        raise
    except BaseException:  # noqa  - an uncaught exception of the machinery is a harness error (exit 2), never a verdict
        import traceback

        traceback.print_exc()
        print("harness error: uncaught exception in the checker; no verdict")
        code = 2
    sys.exit(code)
