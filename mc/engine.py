"""Exhaustive-exploration engine: deals work units to a pool of long-lived worker processes, runs each unit under a
watchdog, merges counters / state digests / violations deterministically (in unit order, independent of worker
timing)."""

from __future__ import annotations

import importlib
import multiprocessing as mp
import os
import signal
import sys
import time
import traceback
from collections import Counter

MAX_VIOL_PER_UNIT = 4
MAX_SAMPLES_PER_UNIT = 2


class Hang(Exception):
    pass


class Ctx:
    """Per-unit collector handed to ``run_unit``."""

    def __init__(self, unit_index, unit):
        self.unit_index = unit_index
        self.unit = unit
        self.counters = Counter()
        self.states = set()
        self.nontrivial = set()
        self.violations = []
        self.nviol = 0
        self.samples = []
        self.outcomes = set()
        self.payload = None
        self.dig = 0

    def digest(self, obj):
        """Order-independent, hash-seed-independent digest of results (XOR of 64-bit checksums of repr)."""
        import zlib

        b = repr(obj).encode()
        self.dig ^= (zlib.crc32(b) << 32) | zlib.adler32(b)

    def count(self, key, n=1):
        self.counters[key] += n

    def state(self, digest):
        self.states.add(digest)

    def distinct(self, digest):
        """A distinct non-trivial case (by the property's rule)."""
        self.nontrivial.add(digest)

    def outcome(self, digest):
        self.outcomes.add(digest)

    def sample(self, obj):
        if len(self.samples) < MAX_SAMPLES_PER_UNIT:
            self.samples.append(obj)

    def violation(self, signature, message, case):
        self.nviol += 1
        if len(self.violations) < MAX_VIOL_PER_UNIT or not any(v["signature"] == signature for v in self.violations):
            if len(self.violations) < 40:
                self.violations.append({"signature": signature, "message": message, "case": case})


def _rejects_library_model(e):
    try:
        from pydantic import ValidationError

        if not isinstance(e, ValidationError):
            return False
        import curies
        import curies.api
        import curies.triples

        return any(isinstance(getattr(m, str(e.title), None), type) for m in (curies, curies.api, curies.triples))
    except Exception:  # noqa
        return False


def _alarm(signum, frame):
    raise Hang()


def run_one(modname, idx, unit, timeout):
    mod = importlib.import_module(modname)
    ctx = Ctx(idx, unit)
    old = signal.signal(signal.SIGALRM, _alarm)
    signal.alarm(timeout)
    err = None
    try:
        mod.run_unit(unit, ctx)
    except Hang:
        ctx.violation("hang/unit-exceeded-watchdog", f"unit did not finish within {timeout}s (possible non-termination)", {"unit": unit})
    except Exception as e:  # noqa
        # An exception escaping from *library* code in a scenario the harness built inside the property's quantifier is
        # a violation ("the operation works on these inputs"); anything else is a harness error and gives no verdict.
        tb = traceback.extract_tb(e.__traceback__)
        src = os.path.abspath(os.environ.get("CURIES_SRC", "/repo/src")) + os.sep
        lib = [fr for fr in tb if os.path.abspath(fr.filename).startswith(src)]
        if lib:
            fr = lib[-1]
            ctx.violation(
                f"crash/{type(e).__name__}-in-{os.path.basename(fr.filename)}:{fr.name}",
                f"unexpected {type(e).__name__}: {str(e)[:160]} (raised in {fr.name})",
                {"unit": unit},
            )
        elif _rejects_library_model(e):
            # pydantic raises its ValidationError from its own frames: the library's model refused an object the harness built
            # inside the quantifier (where a refusal is expected the property module catches it itself)
            ctx.violation(f"crash/ValidationError-rejecting-{e.title}", f"unexpected ValidationError: {str(e)[:200]}", {"unit": unit})
        else:
            err = traceback.format_exc()
    finally:
        signal.alarm(0)
        signal.signal(signal.SIGALRM, old)
    return {
        "idx": idx,
        "counters": dict(ctx.counters),
        "states": ctx.states,
        "nontrivial": ctx.nontrivial,
        "outcomes": ctx.outcomes,
        "violations": ctx.violations,
        "nviol": ctx.nviol,
        "samples": ctx.samples,
        "payload": ctx.payload,
        "dig": ctx.dig,
        "error": err,
    }


def _worker(args):
    return run_one(*args)


class Merged:
    def __init__(self):
        self.counters = Counter()
        self.states = set()
        self.nontrivial = set()
        self.outcomes = set()
        self.violations = []
        self.nviol = 0
        self.samples = []
        self.errors = []
        self.units = 0
        self.payloads = []
        self.dig = 0


def _empty_result(idx, error):
    return {"idx": idx, "counters": {}, "states": set(), "nontrivial": set(), "outcomes": set(), "violations": [], "nviol": 0, "samples": [],
            "payload": None, "dig": 0, "error": error}


def _child(conn, job):
    try:
        r = run_one(*job)
    except BaseException as e:  # noqa  (run_one reports exceptions of the unit itself; this is the last line of defence)
        r = _empty_result(job[1], "worker failed outside the unit: " + "".join(traceback.format_exception_only(type(e), e)))
    try:
        conn.send(r)
    finally:
        conn.close()
        # a forked worker leaves through os._exit, which skips atexit: remove the scratch directory of the property module here
        tmp = getattr(sys.modules.get(job[0]), "_TMP", None)
        if tmp:
            import shutil

            shutil.rmtree(tmp, ignore_errors=True)


_KNOWN = None


def _known_signatures():
    """Signatures of the listed open findings: in screening mode they do not stop the run (they are expected on every tree)."""
    global _KNOWN
    if _KNOWN is None:
        import json

        path = os.path.join(os.path.dirname(os.path.dirname(os.path.abspath(__file__))), "known_findings.json")
        try:
            _KNOWN = {f["signature"] for f in json.load(open(path)).get("open", [])}
        except OSError:
            _KNOWN = set()
    return _KNOWN


def _run_forked(jobs, procs):
    """One fresh forked process per unit (state leaking between units - a module-level cache in the code under test or in the
    harness - cannot make a result depend on which units a worker ran before), scheduled by hand: every child reports through
    its own pipe, a child that dies without a result or overruns its deadline becomes a harness error instead of a hang
    (multiprocessing.Pool waits forever for the result of a worker that was killed)."""
    import collections
    import time
    from multiprocessing.connection import wait

    ctx = mp.get_context("fork")
    early = os.environ.get("VERIF_FIRST_VIOLATION") == "1"   # screening mode (mutation runs): stop at the first violation
    pending = collections.deque(jobs)
    running = {}
    results = []
    retried = set()
    stop = False
    while (pending and not stop) or running:
        while pending and not stop and len(running) < procs:
            job = pending.popleft()
            parent_end, child_end = ctx.Pipe(duplex=False)
            proc = ctx.Process(target=_child, args=(child_end, job), daemon=True)
            proc.start()
            child_end.close()
            running[parent_end] = (proc, job, time.time())
        for conn in wait(list(running), timeout=1.0):
            proc, job, _ = running.pop(conn)
            try:
                r = conn.recv()
            except (EOFError, OSError):
                proc.join(5)
                if job[1] not in retried and not stop:     # killed from outside (out of memory, an operator): run the unit once more
                    retried.add(job[1])
                    pending.append(job)
                    conn.close()
                    continue
                r = _empty_result(job[1], f"the worker process of unit {job[1]} ended without a result, twice (exit code {proc.exitcode})")
            conn.close()
            proc.join(30)
            results.append(r)
            if early and any(v["signature"] not in _known_signatures() for v in r["violations"]):
                stop = True
        now = time.time()
        for conn, (proc, job, t0) in list(running.items()):
            if stop or now - t0 > job[3] + 120:      # the in-process watchdog (SIGALRM after job[3] seconds) should have fired long before
                proc.kill()
                proc.join(5)
                conn.close()
                del running[conn]
                if not stop:
                    results.append(_empty_result(job[1], f"unit {job[1]} overran its deadline of {job[3]}s by more than 120s and was killed"))
    return results


def run_units(modname, units, timeout=600, procs=None, seed=0):
    """Run all units; the result does not depend on scheduling."""
    procs = procs or int(os.environ.get("VERIF_PROCS", "0")) or min(16, os.cpu_count() or 1)
    jobs = [(modname, i, u, timeout) for i, u in enumerate(units)]
    # the seed only rotates the order in which units are dealt to workers
    if jobs and seed:
        k = seed % len(jobs)
        jobs = jobs[k:] + jobs[:k]
    results = []
    if procs <= 1 or len(jobs) <= 1:
        for j in jobs:
            results.append(run_one(*j))
    else:
        results = _run_forked(jobs, min(procs, len(jobs)))
    results.sort(key=lambda r: r["idx"])
    m = Merged()
    for r in results:
        m.units += 1
        m.counters.update(r["counters"])
        m.states |= r["states"]
        m.nontrivial |= r["nontrivial"]
        m.outcomes |= r["outcomes"]
        for v in r["violations"]:
            v["unit"] = units[r["idx"]]
            m.violations.append(v)
        m.nviol += r["nviol"]
        m.payloads.append(r["payload"])
        m.dig ^= r.get("dig", 0)
        if len(m.samples) < 6:
            m.samples.extend(r["samples"][: 6 - len(m.samples)])
        if r["error"]:
            m.errors.append((r["idx"], r["error"]))
    return m


def chunks(seq, n):
    """Split a list into n nearly equal contiguous chunks (no empties)."""
    seq = list(seq)
    n = max(1, min(n, len(seq)))
    k, r = divmod(len(seq), n)
    out, i = [], 0
    for j in range(n):
        size = k + (1 if j < r else 0)
        out.append(seq[i : i + size])
        i += size
    return out


class Timer:
    def __init__(self):
        self.t0 = time.time()

    def s(self):
        return round(time.time() - self.t0, 3)
