"""Breadth sweeps: the second kind of bound.

The structural universes of the property modules are *deep* (every combination of a few strings over a few symbols).
A defect can also hide behind one particular character (a non-NFC letter, '%', '+', U+212A KELVIN SIGN), behind the
scheme of a realistic URL, or behind a count threshold (>= 10 prefixes, > 50 clashes, >= 64 records).  The sweeps are
*broad and shallow*: one fixed scenario per property, instantiated for every token of TOKENS (each token placed in
every string role of the scenario) and, where a count matters, for every n of COUNTS.  Within that statement they are
exhaustive: every token x every role x every near-miss query variant is executed and compared with the reference.
"""

from __future__ import annotations

import unicodedata
from urllib.parse import quote, unquote, unquote_plus

from .refmodel import Model, mrec

ASCII_PRINTABLE = [chr(c) for c in range(32, 127)]
CONTROLS = ["\t", "\n", "\r", "\x0b", "\x0c", "\x1c", "\x1d", "\x1e", "\x1f", "\x00", "\x7f", "\x85"]
UNI_SPACE = ["\xa0", "\u2003", "\u2028", "\u2029", "\u3000", "\u200b", "\u200d", "\ufeff", "\xad"]
UNI_LETTERS = [
    "é", "e\u0301", "\u212b", "\xc5", "\u2126", "\u212a", "ß", "ẞ", "ſ", "İ", "ı", "ﬁ", "ǆ", "Σ", "ς", "²", "٣", "①", "Ⅳ", "中", "😀",
    "\u0958", "a\u0300", "ａ", "Ａ", "１", "µ", "μ",
]
MULTI = ["http://", "https://", "HTTP://", "//", "://", "%2F", "%7E", "%41", "%", "%%", "%s", "{}", "{0}", "\\n", "\\", "pull", "issues", "@id",
         "ns1", "ns10", "None", "nan", "0", "00", "01", "-1", "a+b", "a b", "..", "../", "&amp;", "<x>", "[x]", "a,b", "a;b", "a|b",
         # names and namespaces that RDF / XML tooling treats specially
         "{pattern}", "{uri_prefix}", "{prefix}", "$schema", "$id", "$ref", "@context", "__proto__", "constructor", "http://[E", "//[", "HTTP://[::1]/", "\u2100",
         "%20", "%0A", "%C2%A0", "%2F%2Fb", "/%2Fb", "%3A", "%23",
         "sh", "xsd", "rdf", "rdfs", "owl", "xml", "xmlns", "XML", "xmlfoo", "static", "_",
         "http://www.w3.org/ns/shacl#", "http://www.w3.org/2001/XMLSchema#", "http://www.w3.org/1999/02/22-rdf-syntax-ns#",
         "http://www.w3.org/2002/07/owl#", "http://www.w3.org/2000/01/rdf-schema#", "http://www.w3.org/XML/1998/namespace"]

TOKENS = ASCII_PRINTABLE + CONTROLS + UNI_SPACE + UNI_LETTERS + MULTI
TOKENS_QUICK = TOKENS   # cheap enough for every run

# pairs of strings a careless normalisation would identify; every pair is registered as two *different* names
TWINS = [
    ("é", "e\u0301"), ("\xc5", "\u212b"), ("K", "\u212a"), ("k", "\u212a"), ("s", "ſ"), ("ss", "ß"), ("i", "ı"), ("I", "İ"), ("Ω", "\u2126"),
    ("a", "a "), ("a", " a"), ("a", "a\u200b"), ("a", "a\n"), ("1", "١"), ("2", "²"), ("a", "ａ"), ("A", "%41"), ("a+b", "a b"), ("a%20b", "a b"),
    ("a", "a/"), ("a", "a#"), ("a", "a?"), ("a", "a."), ("a_b", "a-b"), ("a1", "a01"), ("µ", "μ"), ("σ", "ς"), ("ﬁ", "fi"),
]
URL_TWINS = [
    ("http://e.org/", "https://e.org/"), ("http://e.org/", "http://www.e.org/"), ("http://e.org/", "http://e.org"), ("http://e.org/a/", "http://e.org/a#"),
    ("http://e.org/", "HTTP://e.org/"), ("http://e.org/", "http://E.org/"), ("http://e.org/a", "http://e.org/a/"), ("http://e.org/?id=", "http://e.org/?ID="),
    ("http://e.org:80/", "http://e.org/"), ("http://e.org/%7Ea/", "http://e.org/~a/"), ("http://e.org/a b/", "http://e.org/a+b/"), ("urn:x:", "URN:x:"),
    ("http://e.org/é/", "http://e.org/e\u0301/"), ("http://e.org//", "http://e.org/"), ("http://a://b/", "http://a/"),
]

COUNTS = [1, 2, 3, 5, 6, 7, 9, 10, 11, 12, 16, 17, 31, 32, 33, 50, 51, 52, 63, 64, 65, 100, 101, 127, 128, 129, 130]


def variants(s: str):
    """Near-miss variants of a string: what a careless normalisation would map it to (or from)."""
    out = []

    def add(v):
        if v != s and v not in out:
            out.append(v)

    for f in (str.swapcase, str.casefold, str.lower, str.upper, str.strip, str.title):
        add(f(s))
    for form in ("NFC", "NFD", "NFKC", "NFKD"):
        add(unicodedata.normalize(form, s))
    add(" " + s)
    add(s + " ")
    add(s + "\n")
    try:
        add(unquote(s))
        add(unquote_plus(s))
        add(quote(s, safe=":/#?&=@[]!$'()*+,;"))
    except Exception:  # noqa
        pass
    if "http://" in s:
        add(s.replace("http://", "https://"))
    if "https://" in s:
        add(s.replace("https://", "http://"))
    if s.startswith("HTTP://"):
        add("http://" + s[7:])
    add(s.rstrip("/#"))
    add(s.replace("//", "/"))
    add(s.replace("+", " "))
    add("".join(c for c in s if c.isprintable()))
    for a, b in (("[", "]"), ("<", ">"), ('"', '"'), ("(", ")"), ("{", "}")):     # wrappers some syntaxes put around CURIEs / IRIs
        add(a + s + b)
    add(s + "\r\n")
    return out


IDENTS = ["1", "", "0012", "a b"]


def token_config(t: str, delim: str = ":"):
    """Two records whose every string role contains the token; the second record's URI prefix nests in the first's."""
    tp = "" if delim in t else t          # quantifier: CURIE prefixes do not contain the delimiter
    return [
        mrec("p" + tp, "u" + t + "/", ["q" + tp], ["v" + t]),
        mrec("r", "u" + t + "/s" + t),
    ]


def config_queries(model: Model, tokens=(), idents=IDENTS):
    """Strings hitting every registered name with every identifier, plus all near-miss variants of those strings."""
    d = model.delimiter
    base = []
    ids = list(idents) + [i for t in tokens for i in (t, "1" + t, t + "1")]
    for p in sorted(model.all_prefixes()):
        for i in ids:
            base.append(p + d + i)
        base.append(p)
    for u in sorted(model.all_uri_prefixes()):
        for i in ids:
            base.append(u + i)
        if u:
            base.append(u[:-1])
    for t in tokens:
        base += [t, t + d + "1", d + t]
    out, seen = [], set()
    for s in base:
        for v in [s] + variants(s):
            if v not in seen:
                seen.add(v)
                out.append(v)
    return out


def twin_configs():
    """Configurations registering two near-identical names as different prefixes / URI prefixes."""
    out = []
    for a, b in TWINS:
        out.append([mrec(a, "u" + a + "/"), mrec(b, "u" + b + "/")])
        out.append([mrec("p", "u/", [a], ["v" + a]), mrec("r", "w/", [b], ["v" + b])])
    for a, b in URL_TWINS:
        out.append([mrec("one", a), mrec("two", b)])
        out.append([mrec("one", a)])           # the twin is *not* registered: it must not be recognised
        out.append([mrec("one", "http://o/", [], [b])])
    return out


REALISTIC = [
    mrec("GO", "http://purl.obolibrary.org/obo/GO_", ["go", "gomf"], ["https://identifiers.org/GO:", "http://amigo.geneontology.org/amigo/term/GO:"], "^\\d{7}$"),
    mrec("OBO", "http://purl.obolibrary.org/obo/"),
    mrec("doi", "https://doi.org/", ["DOI"], ["http://dx.doi.org/", "doi:"]),
    mrec("3dmet", "http://www.3dmet.dna.affrc.go.jp/cgi/show_data.php?acc="),
    mrec("urn.x", "urn:x:"),
    mrec("http", "HTTP://U/"),
    mrec("_", "https://e.org/_#"),
    mrec("é", "https://e.org/é/"),
]
REALISTIC_IDENTS = ["1", "", "0000001", "1234567", "10.1/x:y", "a/b", "a#b", "a?b=c", "a b", "a+b", "%2F", "//e.org/1", "[x]"]
