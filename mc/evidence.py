"""Evidence writer: /verif/evidence/<id>.json per EVIDENCE.schema.json, all counts measured on this run."""

from __future__ import annotations

import json
import os

from .cli import VERIF, jsonable


def write_evidence(mod, prop, tier, seed, merged, wall, new_violations, known_seen, units):
    d = mod.describe(tier)
    c = merged.counters
    if c.get("sweep_cases") or c.get("sweep_objects") or c.get("file_extra_cases"):
        from . import sweeps

        d["rule"] += (f"; plus breadth sweeps (mc/sweeps.py): {len(sweeps.TOKENS)} tokens in every string role of a fixed scenario, near-miss variants of "
                      f"registered strings, {len(sweeps.TWINS) + len(sweeps.URL_TWINS)} twin pairs, counts up to {max(sweeps.COUNTS)} "
                      f"({int(c.get('sweep_cases', 0) + c.get('sweep_objects', 0) + c.get('file_extra_cases', 0))} sweep cases run)")
    states = getattr(merged, "states_override", None) or len(merged.states)
    nontrivial = getattr(merged, "nontrivial_override", None) or len(merged.nontrivial)
    coverage = {
        "states": max(states, 0),
        "transitions": int(c.get("transitions", 0)),
        "traces_validated_against_impl": int(c.get("validated", 0)),
        "evaluations": int(c.get("evaluations", 0)),
        "distinct_nontrivial": nontrivial,
        "distinct_outcomes": len(merged.outcomes),
        "rule": d["rule"],
        "samples": jsonable(merged.samples) or ([jsonable(units[0])] if units else []),
        "exhaustive": bool(d.get("exhaustive", True)),
        "bounds": d.get("bounds", {}),
        "caps_hit": d.get("caps_hit", []),
        "work_units": merged.units,
        "counters": {k: int(v) for k, v in sorted(c.items())},
        "violating_cases": int(merged.nviol),
        "known_findings_reobserved": known_seen,
        "model_binding": d.get(
            "model_binding",
            "the explorer drives the real objects and evaluates the reference model in lock-step; "
            "traces_validated_against_impl counts histories on which implementation and model agreed at every step",
        ),
    }
    ev = {
        "property_id": prop,
        "tier": tier,
        "seed": int(seed),
        "level": d.get("level", "model_checking"),
        "coverage": coverage,
        "assumptions": d.get("assumptions", []),
        "wall_s": float(wall),
        "violations": int(new_violations),
    }
    evdir = os.environ.get("VERIF_EVIDENCE_DIR") or os.path.join(VERIF, "evidence")
    os.makedirs(evdir, exist_ok=True)
    path = os.path.join(evdir, f"{prop}.json")
    tmp = path + ".tmp"
    with open(tmp, "w") as f:
        json.dump(ev, f, indent=1, sort_keys=True, ensure_ascii=True)
        f.write("\n")
    os.replace(tmp, path)
    return path
