"""Alphabets and deterministic (simplest-first) generators shared by the property checks."""

from __future__ import annotations

import itertools as it

from .refmodel import MRec, Model, mrec


def strings(alphabet, maxlen, minlen=0):
    """All strings over ``alphabet`` (a sequence of symbols, each a str) with minlen <= #symbols <= maxlen."""
    for n in range(minlen, maxlen + 1):
        for tup in it.product(alphabet, repeat=n):
            yield "".join(tup)


def subsets(items, minsize=0, maxsize=None):
    items = list(items)
    if maxsize is None:
        maxsize = len(items)
    for n in range(minsize, maxsize + 1):
        yield from it.combinations(items, n)


def set_partitions(items, max_blocks=None):
    """All partitions of a list into non-empty blocks (each block a tuple, order of first elements kept)."""
    items = list(items)
    if not items:
        yield []
        return
    first, rest = items[0], items[1:]
    for part in set_partitions(rest, max_blocks):
        # put first into its own block
        if max_blocks is None or len(part) + 1 <= max_blocks:
            yield [(first,)] + part
        for i in range(len(part)):
            yield part[:i] + [(first,) + part[i]] + part[i + 1 :]


def rec_to_json(r: MRec):
    return [r.prefix, r.uri_prefix, list(r.psyn), list(r.usyn), r.pattern]


def rec_from_json(j) -> MRec:
    return mrec(j[0], j[1], j[2], j[3], j[4] if len(j) > 4 else None)


def recs_to_json(rs):
    return [rec_to_json(r) for r in rs]


def recs_from_json(js):
    return [rec_from_json(j) for j in js]


def valid_models(record_pool, max_records, delimiter=":"):
    """All valid converters (as lists of MRec) of <= max_records distinct records from the pool, as sets
    (one order each: pool order)."""
    pool = list(record_pool)
    for n in range(0, max_records + 1):
        for combo in it.combinations(pool, n):
            if Model(combo, delimiter).valid():
                yield list(combo)


def query_strings(model: Model, identifiers=("1", ""), extra=()):
    """Queries derived from a configuration: every registered string, +/- one character, CURIEs for every
    registered and some unregistered prefixes, and fixed corner strings."""
    d = model.delimiter
    qs = ["", d, "1", "nodelim", d + "1", "1" + d]
    ups = sorted(model.all_uri_prefixes())
    pres = sorted(model.all_prefixes())
    for u in ups:
        qs.append(u)
        qs.append(u + "1")
        qs.append(u + d + "1")
        if u:
            qs.append(u[:-1])
            qs.append(u[:-1] + "1")
    for p in pres + ["zz"]:
        for i in identifiers:
            qs.append(p + d + i)
        qs.append(p + d + "1" + d + "2")
        qs.append(p)
    qs.extend(extra)
    seen, out = set(), []
    for q in qs:
        if q not in seen:
            seen.add(q)
            out.append(q)
    return out
