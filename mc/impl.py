"""Glue to the implementation under test: import it from the tree being checked, build real objects from model
records, take canonical snapshots of live converters and run the observation battery."""

from __future__ import annotations

import os
import sys

VERIF = os.path.dirname(os.path.dirname(os.path.abspath(__file__)))
CURIES_SRC = os.path.abspath(os.environ.get("CURIES_SRC", "/repo/src"))


def bootstrap():
    """Make ``import curies`` resolve to the tree under test (never to a stale copy)."""
    stubs = os.path.join(VERIF, "stubs")
    for p in (stubs, CURIES_SRC):
        if p in sys.path:
            sys.path.remove(p)
    sys.path.insert(0, stubs)
    sys.path.insert(0, CURIES_SRC)
    import logging

    logging.disable(logging.CRITICAL)  # the library logs skipped JSON-LD terms etc.; not part of any oracle
    import curies  # noqa

    f = os.path.abspath(curies.__file__)
    if not f.startswith(CURIES_SRC + os.sep):
        raise RuntimeError(f"curies imported from {f}, expected under {CURIES_SRC}")
    return curies


curies = bootstrap()
from curies import Converter, Record  # noqa: E402

from .refmodel import MRec, Model  # noqa: E402


def to_record(m: MRec) -> Record:
    """A *fresh* Record object for a model record."""
    return Record(
        prefix=m.prefix,
        uri_prefix=m.uri_prefix,
        prefix_synonyms=list(m.psyn),
        uri_prefix_synonyms=list(m.usyn),
        pattern=m.pattern,
    )


def from_record(r) -> MRec:
    return MRec(r.prefix, r.uri_prefix, tuple(r.prefix_synonyms), tuple(r.uri_prefix_synonyms), r.pattern)


def build(mrecs, delimiter=":") -> Converter:
    return Converter([to_record(m) for m in mrecs], delimiter=delimiter)


def model_of(conv) -> Model:
    """Model denoted by the converter's *records* (not by its indexes)."""
    return Model([from_record(r) for r in conv.records], conv.delimiter)


def rec_key(r):
    return (r.prefix, r.uri_prefix, frozenset(r.prefix_synonyms), frozenset(r.uri_prefix_synonyms), r.pattern or None)


def record_set(conv):
    return frozenset(rec_key(r) for r in conv.records)


INDEXES = ("prefix_map", "synonym_to_prefix", "reverse_prefix_map", "pattern_map")


def indexes(conv):
    """The five lookup structures as sorted item tuples."""
    out = [tuple(sorted(getattr(conv, name).items())) for name in INDEXES]
    try:
        out.append(tuple(sorted(conv.trie.items())))
    except AttributeError:   # a trie that is not a mapping: compared through the queries only
        out.append(("opaque-trie", type(conv.trie).__name__))
    return tuple(out)


def canon(conv):
    """Canonical form of a converter state: delimiter, record set (synonyms as sets), the five indexes."""
    recs = tuple(
        sorted(
            (r.prefix, r.uri_prefix, tuple(sorted(r.prefix_synonyms)), tuple(sorted(r.uri_prefix_synonyms)), r.pattern or "")
            for r in conv.records
        )
    )
    return (conv.delimiter, recs, indexes(conv))


def state_id(conv) -> int:
    return hash(canon(conv))


def views(conv):
    """Public introspection views."""
    return (
        frozenset(conv.get_prefixes()),
        frozenset(conv.get_prefixes(include_synonyms=True)),
        frozenset(conv.get_uri_prefixes()),
        frozenset(conv.get_uri_prefixes(include_synonyms=True)),
        tuple(sorted(conv.bimap.items())),
        tuple(sorted(conv.reverse_bimap.items())),
    )


def _call(f, *a, **k):
    """Call and normalise: ('v', value) or ('e', exception class name)."""
    try:
        v = f(*a, **k)
    except Exception as e:  # noqa
        return ("e", type(e).__name__)
    if isinstance(v, list):
        v = tuple(v)
    return ("v", v)


def observe(conv, queries, prefixes=()):
    """The observation battery: every public query on every string; a hashable value."""
    out = []
    for q in queries:
        out.append(
            (
                _call(conv.compress, q),
                _call(conv.parse_uri, q, return_none=True),
                _call(conv.is_uri, q),
                _call(conv.standardize_uri, q),
                _call(conv.expand, q),
                _call(conv.expand_all, q),
                _call(conv.parse_curie, q),
                _call(conv.is_curie, q),
                _call(conv.standardize_curie, q),
                _call(conv.parse, q, strict=False),
                _call(conv.compress_or_standardize, q),
                _call(conv.expand_or_standardize, q),
            )
        )
    for p in prefixes:
        rec = _call(conv.get_record, p)
        if rec[0] == "v" and rec[1] is not None:
            rec = ("v", rec_key(rec[1]))
        out.append(
            (
                _call(conv.standardize_prefix, p),
                _call(conv.expand_pair, p, "1"),
                _call(conv.expand_pair_all, p, "1"),
                rec,
            )
        )
    return tuple(out)


def snapshot(conv, queries=(), prefixes=()):
    """Everything observable about a converter: records, indexes, views and the battery."""
    return (canon(conv), views(conv), observe(conv, queries, prefixes))


def ident_hook(prefix, identifier):
    """The identifier hook used for subclass runs: rejects two identifiers and those that begin with 'b' + delimiter, strips a redundant tag from others."""
    if identifier in ("y", "bad") or identifier[:1] == "b" and identifier[1:2] in (":", "/"):
        return None
    if identifier.startswith("X") and len(identifier) > 1:
        return identifier[1:]
    return identifier


class HookedConverter(Converter):
    """A converter using the documented extension point: standardisation and validation of identifiers."""

    def standardize_identifier(self, standard_prefix, identifier):
        return ident_hook(standard_prefix, identifier)


class FoldingConverter(Converter):
    """A subclass whose prefix standardisation ignores case (everything that standardises a prefix must go through it)."""

    def standardize_prefix(self, prefix, *, strict=False, passthrough=False):
        for k, v in self.synonym_to_prefix.items():
            if k.casefold() == prefix.casefold():
                return v
        return super().standardize_prefix(prefix, strict=strict, passthrough=passthrough)


def build_shared_list(mrecs, delimiter=":"):
    """Two converters are built from ONE list object; the second one and the caller's list are modified afterwards.
    Returns the first converter: it must be unaffected (its records are its own)."""
    lst = [to_record(m) for m in mrecs]
    first = Converter(lst, delimiter=delimiter)
    second = Converter(lst, delimiter=delimiter)
    third = Converter(first.records, delimiter=delimiter)
    second.add_prefix("zz8", "zz8/", prefix_synonyms=["zz8s"])
    third.add_prefix("zz6", "zz6/")
    lst.append(Record(prefix="zz7", uri_prefix="zz7/"))
    return first
