"""C07 - derived operations agree with the two primitive parsers."""

from __future__ import annotations

from . import joint
from .c03 import safe

PROP = "C07"


def units(tier, seed):
    return joint.units(tier, seed, delim_in_prefix=True, hook=True)


def outcome(f, *a, **k):
    try:
        return ("v", f(*a, **k))
    except Exception as e:  # noqa
        return ("e", type(e).__name__)


def check_config(conv, model, Q, fails, where, ctx):
    d = model.delimiter
    nboth = 0
    for s in Q:
        c = conv.compress(s)
        pu = conv.parse_uri(s, return_none=True)
        iu = conv.is_uri(s)
        if not (iu == (c is not None) == (pu is not None)):
            fails.append(("is_uri-compress-parse_uri-disagree", f"{where}: is_uri({s!r}) = {iu}, compress = {c!r}, parse_uri = {pu!r}"))
        e = safe(conv.expand, s)
        ic = conv.is_curie(s)
        known = model.parse_curie(s) is not None
        if not (ic == (e is not None) == known):
            fails.append(("is_curie-expand-disagree", f"{where}: is_curie({s!r}) = {ic}, expand = {e!r}, delimiter present and prefix known = {known}"))
        # parse: URI parse if recognised URI, else CURIE parse, else nothing
        exp = model.parse(s)
        got = safe(conv.parse, s, strict=False)
        got_t = None if got is None else tuple(got)
        if got_t != exp:
            both = model.is_uri(s) and model.is_curie(s)
            fails.append(("parse/" + ("uri-precedence-violated" if both else "differs-from-reference"), f"{where}: parse({s!r}) = {got_t!r}, reference {exp!r}"))
            continue
        if model.is_uri(s) and model.is_curie(s):
            nboth += 1
            if ctx is not None and model.parse_uri(s) != model.parse_curie(s):
                ctx.count("both_and_parses_differ")
        ps = outcome(conv.parse, s, strict=True)
        if (exp is None) != (ps[0] == "e") or (ps[0] == "v" and tuple(ps[1]) != exp):
            fails.append(("parse/strict-differs", f"{where}: parse({s!r}, strict=True) -> {ps!r}, non-strict {exp!r}"))
        cos = safe(conv.compress_or_standardize, s)
        want = None if exp is None else conv.format_curie(*exp)
        if cos != want:
            fails.append(("compress_or_standardize-is-not-curie-of-parse", f"{where}: compress_or_standardize({s!r}) = {cos!r}, CURIE of parse = {want!r}"))
        eos = safe(conv.expand_or_standardize, s)
        want = None if exp is None else model.owner(exp[0]).uri_prefix + exp[1]
        if eos != want:
            fails.append(("expand_or_standardize-is-not-uri-of-parse", f"{where}: expand_or_standardize({s!r}) = {eos!r}, canonical URI of parse = {want!r}"))
        a, b = outcome(conv.compress_strict, s), outcome(conv.compress, s, strict=True)
        if a != b or (a[0] == "v") != (c is not None) or (a[0] == "v" and a[1] != c):
            fails.append(("compress_strict-differs", f"{where}: compress_strict({s!r}) -> {a!r}, compress(strict=True) -> {b!r}, compress -> {c!r}"))
        a, b = outcome(conv.expand_strict, s), outcome(conv.expand, s, strict=True)
        if a != b or (a[0] == "v") != (e is not None) or (a[0] == "v" and a[1] != e):
            fails.append(("expand_strict-differs", f"{where}: expand_strict({s!r}) -> {a!r}, expand(strict=True) -> {b!r}, expand -> {e!r}"))
    for p in joint.prefix_queries():
        for i in joint.identifiers():
            if conv.format_curie(p, i) != p + d + i:
                fails.append(("format_curie-differs", f"{where}: format_curie({p!r},{i!r}) = {conv.format_curie(p, i)!r}"))
    if ctx is not None:
        ctx.count("evaluations", len(Q) * 12)
        ctx.count("strings_both_curie_and_uri", nboth)
        if nboth:
            ctx.distinct(hash(where))


def run_unit(unit, ctx):
    joint.run_unit_with(check_config, PROP, unit, ctx)


def replay(case):
    return joint.replay_with(check_config, PROP, case)


def describe(tier):
    return {
        "level": "model_checking",
        "rule": "joint universe (see C03; built to contain strings that are both a CURIE and a URI of the same converter) x "
        "{constructor, merge-late}; every string up to length 3 over {a,A,x,X,y,delimiter} + corner strings (incl. '', delimiter-only, "
        "delimiter-free) through is_uri/is_curie/parse/compress_or_standardize/expand_or_standardize/*_strict/format_curie; "
        "distinct_nontrivial = configurations with at least one string that is both CURIE and URI",
        "bounds": {"records": "<=2 (+3 without synonyms)", "query_len": 3, "delimiters": joint.DELIMS},
        "exhaustive": True,
        "assumptions": ["a ValueError raised by a non-strict primitive is read as 'no result' here (its reporting is C08's subject)"],
    }


def required_counters(tier):
    return ["configurations", "strings_both_curie_and_uri", "both_and_parses_differ", "validated"]
