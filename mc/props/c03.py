"""C03 - compression is lossless; compress and expand are inverse on prefix-free maps."""

from __future__ import annotations

from . import joint

PROP = "C03"


def units(tier, seed):
    return joint.units(tier, seed) + [{"kind": "overlap", "tier": tier}]


# Delimiters that can overlap themselves ("::", "--", "aba") next to a CURIE prefix that ends with the delimiter's leading part:
# prefix + delimiter then contains the delimiter *before* the place where it was appended, although the prefix itself does
# not contain the delimiter (so the configuration is inside C03's quantifier).
OVERLAP_CONFIGS = [
    ("::", [["a:", "http://ac/", [], [], None]]),
    ("::", [["a:", "http://ac/", [], [], None], ["a", "http://a/", [], [], None]]),
    ("--", [["x-", "http://x/", ["y"], [], None]]),
    ("aba", [["nab", "http://n/", [], [], None]]),
    ("::", [["b", "http://b/", [":"], [], None]]),      # the overlapping name is only a synonym: compress never writes it
]


def check_overlap(case):
    """compress(u) of such a converter must still expand back (C03's first clause); the signature is kept apart from the
    generic ones because this is a listed finding (known_findings.json) - anything else that goes wrong here has another signature."""
    from ..impl import Converter, to_record
    from ..universe import recs_from_json

    fails = []
    d, recs = case["delim"], recs_from_json(case["recs"])
    conv = Converter([to_record(r) for r in recs], delimiter=d)
    for r in recs:
        for up in r.uri_prefixes:
            for ident in ("x", "", "1" + d + "2"):
                u = up + ident
                c = conv.compress(u)
                if c != r.prefix + d + ident:
                    fails.append(("compress-differs-from-reference", f"records {case['recs']} delimiter {d!r}: compress({u!r}) = {c!r}"))
                    continue
                allx = safe(conv.expand_all, c)
                if allx is None or u not in allx:
                    overlapping = (r.prefix + d).find(d) != len(r.prefix)
                    sig = "self-overlapping-delimiter/compressed-curie-does-not-expand-back" if overlapping else "lossless/uri-not-among-expand_all-of-its-curie"
                    fails.append((sig, f"records {case['recs']} delimiter {d!r}: compress({u!r}) = {c!r} but expand_all({c!r}) = {allx!r}"))
    return fails


def safe(f, *a, **k):
    """A ValueError from a non-strict call is read as 'no result' (its reporting is C08's subject)."""
    try:
        return f(*a, **k)
    except ValueError:
        return None


def check_config(conv, model, Q, fails, where, ctx):
    pf = model.prefix_free()
    if ctx is not None:
        ctx.count("prefix_free_configs" if pf else "nested_configs")
    n_rec = n_cur = 0
    for s in Q:
        # ---- s as a URI ------------------------------------------------------------------------------------------
        c = conv.compress(s)
        if c != model.compress(s):
            fails.append(("compress-differs-from-reference", f"{where}: compress({s!r}) = {c!r}, reference {model.compress(s)!r}"))
            continue
        if c is not None:
            n_rec += 1
            allx = safe(conv.expand_all, c)
            if allx is None or s not in allx:
                fails.append(("lossless/uri-not-among-expand_all-of-its-curie", f"{where}: compress({s!r}) = {c!r} but expand_all({c!r}) = {allx!r}"))
            e = safe(conv.expand, c)
            su = conv.standardize_uri(s)
            if e != su or e is None:
                fails.append(("lossless/expand-of-compressed-differs-from-standardize_uri", f"{where}: expand(compress({s!r})) = {e!r}, standardize_uri = {su!r}"))
            hit = model.longest(s)
            if hit[1] == hit[0].uri_prefix and su != s:
                fails.append(("lossless/canonical-uri-not-fixed-by-standardize_uri", f"{where}: {s!r} is written with a canonical URI prefix but standardize_uri gives {su!r}"))
            if pf and e is not None:
                # inverse on standard URIs
                if conv.compress(e) != c:
                    fails.append(("bijection/compress-expand-compress", f"{where}: compress(expand(compress({s!r}))) = {conv.compress(e)!r} != {c!r}"))
        # ---- s as a CURIE ----------------------------------------------------------------------------------------
        e = safe(conv.expand, s)
        if e != model.expand(s):
            fails.append(("expand-differs-from-reference", f"{where}: expand({s!r}) = {e!r}, reference {model.expand(s)!r}"))
            continue
        if e is not None:
            n_cur += 1
            back = conv.compress(e)
            if back is None:
                fails.append(("expanded-uri-not-compressible", f"{where}: expand({s!r}) = {e!r} which does not compress"))
            elif pf:
                sc = safe(conv.standardize_curie, s)
                if back != sc:
                    fails.append(("bijection/compress-of-expanded-differs-from-standardize_curie", f"{where}: compress(expand({s!r})) = {back!r}, standardize_curie = {sc!r}"))
                if sc is not None and safe(conv.expand, sc) != e:
                    fails.append(("bijection/standard-curie-expands-differently", f"{where}: expand(standardize_curie({s!r})) != expand({s!r})"))
    if ctx is not None:
        ctx.count("evaluations", len(Q) * 2)
        ctx.count("recognised_uris", n_rec)
        ctx.count("recognised_curies", n_cur)
        if n_rec and n_cur:
            ctx.distinct(hash((where,)))


def run_unit(unit, ctx):
    if unit.get("kind") == "overlap":
        for d, recs in OVERLAP_CONFIGS:
            case = {"kind": "overlap", "delim": d, "recs": recs}
            ctx.count("overlap_configs")
            ctx.count("transitions")
            for sig, msg in check_overlap(case)[:1]:
                ctx.violation(f"{PROP}/{sig}", msg, case)
        return
    joint.run_unit_with(check_config, PROP, unit, ctx)


def replay(case):
    if case.get("kind") == "overlap":
        return [(f"{PROP}/{s_}", m) for s_, m in check_overlap(case)]
    return joint.replay_with(check_config, PROP, case)


def describe(tier):
    return {
        "level": "model_checking",
        "rule": "joint universe: every valid converter of 1 record (<=1 synonym per side), 2 records (quick: <=1 synonym in total; "
        "thorough: all) and 3 synonym-free records over CURIE strings {'',a,A,x} x URI strings {'',x,x:,a:,a:x,xy,X}, delimiters "
        "':' and '/', constructor and merge-late construction; every string up to length 3 over {a,A,x,X,y,delimiter} plus 16 "
        "longer corner strings is used both as URI and as CURIE; distinct_nontrivial = configurations with recognised URIs and CURIEs",
        "bounds": {"records": "<=2 (+3 without synonyms)", "query_len": 3, "delimiters": joint.DELIMS},
        "exhaustive": True,
        "assumptions": ["CURIE prefixes do not contain the delimiter (quantifier of C03)"],
    }


def required_counters(tier):
    return ["configurations", "prefix_free_configs", "nested_configs", "recognised_uris", "recognised_curies", "validated"]
