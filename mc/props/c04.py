"""C04 - strict construction enforces one owner per CURIE prefix and per URI prefix.

Every sequence (order matters, repetition allowed) of records over a 3x3 string alphabet with at most one synonym per
side is handed to the constructor; the same collections go through every loader that can express them.  Oracle: the
clash sets computed by nested loops in the reference model.
"""

from __future__ import annotations

import itertools as it

from ..engine import chunks
from ..impl import Converter, Record, canon, curies, rec_key, to_record
from ..refmodel import Model, mrec
from ..universe import recs_from_json, recs_to_json

PROP = "C04"
P = ["a", "A", "b"]
U = ["x", "X", "xy"]


def sides(alpha):
    out = []
    for c in alpha:
        out.append((c, ()))
        for s in alpha:
            if s != c:
                out.append((c, (s,)))
    return out


def record_alphabet():
    recs = [mrec(p, u, ps, us) for (p, ps) in sides(P) for (u, us) in sides(U)]
    plain = [r for r in recs if not r.psyn and not r.usyn]
    # a record may repeat a value inside its own synonym list: that is not a clash between two different records
    dup = [mrec("a", "x", ("b", "b")), mrec("b", "xy", (), ("X", "X")), mrec("A", "X", ("b", "b"), ("x", "x")),
           # the two sides are independent name spaces: equal strings across sides are no clash and no self-synonym
           mrec("x", "x"), mrec("a", "X", (), ("a",)), mrec("", ""), mrec("b", "", ("",), ("b",))]
    return recs, plain, dup


def seq_alphabet(tier, depth):
    recs, plain, dup = record_alphabet()
    if depth <= 3:
        return recs + dup
    one = [r for r in recs if len(r.psyn) + len(r.usyn) == 1 and r.prefix == "a" and r.uri_prefix == "x"]
    return plain + dup + one


def sequences_from(tier, first, depth):
    """All sequences of length 1..depth (repetition allowed, order matters) starting with alphabet[first]."""
    alpha = seq_alphabet(tier, depth)
    a = alpha[first]
    yield [a]
    for n in range(1, depth):
        for rest in it.product(alpha, repeat=n):
            yield [a, *rest]


def units(tier, seed):
    us = [{"kind": "seqs", "tier": tier, "first": i, "depth": 3} for i in range(len(seq_alphabet(tier, 3)))]
    if tier == "thorough":
        us += [{"kind": "seqs", "tier": tier, "first": i, "depth": 4, "only_len": 4} for i in range(len(seq_alphabet(tier, 4)))]
    us.append({"kind": "self-synonym"})
    us.append({"kind": "process-history"})
    us += [{"kind": "after-merge", "tier": tier, "first": i} for i in range(len(seq_alphabet(tier, 3)))]
    for kind in ("prefix_map", "priority_map", "reverse_map", "jsonld"):
        us.extend({"kind": kind, "part": i, "of": 8} for i in range(8))
    seqs = sweep_sequences()
    for ch in chunks(seqs, 24):
        us.append({"kind": "sweep", "seqs": ch})
    return us


def sweep_sequences():
    """Breadth sweeps (mc/sweeps.py): every token in a clashing and in a clash-free role, twin names registered as
    different strings, near-miss variants that must NOT clash, and collections scaled by a count."""
    from .. import sweeps
    from ..refmodel import mrec

    out = []
    for t in sweeps.TOKENS:
        out.append(sweeps.token_config(t))                                                 # valid
        out.append([mrec("p" + t, "u1"), mrec("r", "u2", ["p" + t])])                    # canonical vs synonym, CURIE side
        out.append([mrec("r", "u2", ["p" + t]), mrec("p" + t, "u1")])
        out.append([mrec("a", "u" + t), mrec("b", "w", [], ["u" + t])])                   # canonical vs synonym, URI side
        out.append([mrec("a", "w", [], ["u" + t]), mrec("b", "z", [], ["u" + t])])        # synonym vs synonym
        out.append([mrec(t, "u1"), mrec("zb", "u2"), mrec("zc", "u3", [t])])                # the token alone as a prefix
        for v in sweeps.variants("p" + t)[:6]:
            out.append([mrec("p" + t, "u1"), mrec("r", "u2", [v])])                       # different strings: no clash
            out.append([mrec("p" + t, "u1", [v])])                                        # ... also inside one record
        for v in sweeps.variants("u" + t)[:6]:
            out.append([mrec("a", "u" + t), mrec("b", "w", [], [v])])
    out.extend(sweeps.twin_configs())
    for a, b in sweeps.TWINS:
        out.append([mrec(a, "u1", [b])])
        out.append([mrec("a", "u" + a, [], ["u" + b])])
    out.append(list(sweeps.REALISTIC))
    for n in sweeps.COUNTS:
        base = [mrec(f"p{i}", f"u{i}/", [f"s{i}"], [f"v{i}/"]) for i in range(n)]
        out.append(base)                                                                   # valid, n records
        for k in sorted({0, n // 2, n - 1}):
            out.append(base + [mrec("late", "late/", [f"s{k}"])])                        # one clash, position k
            out.append(base[:k] + [mrec("late", "late/", [], [f"u{k}/"])] + base[k:])
    for n in (2, 3, 5, 8, 10, 11, 12, 14):
        out.append([mrec(f"p{i}", "shared/") for i in range(n)])                          # n(n-1)/2 clash pairs on the URI side
        out.append([mrec(f"p{i}", f"u{i}/", ["shared"]) for i in range(n)])               # ... on the CURIE side
    return [recs_to_json(c) for c in out]


def ckey(k):
    """Canonical, order-independent text of a record key (repr of a frozenset is not canonical)."""
    return repr((k[0], k[1], tuple(sorted(k[2])), tuple(sorted(k[3])), k[4]))


def dupset(exc):
    """{(sorted pair of record keys, string)} from a DuplicateValueError."""
    out = set()
    for d in exc.duplicates:
        pair = tuple(sorted([ckey(rec_key(d.record_1)), ckey(rec_key(d.record_2))]))
        out.add((pair, d.prefix))
    return out


def model_dupset(model, clashes):
    out = set()
    for i, j, s in clashes:
        pair = tuple(sorted([ckey(model.records[i].key()), ckey(model.records[j].key())]))
        out.add((pair, s))
    return out


def check_result(make, model, fails, where, ctx=None):
    """make() constructs the converter; compare success / exception class / duplicates with the clash oracle."""
    uri, pre = model.clashes()
    try:
        conv = make()
        exc = None
    except Exception as e:  # noqa
        conv, exc = None, e
    if ctx is not None:
        ctx.count("transitions")
        ctx.count("valid" if not uri and not pre else "clash_both_sides" if uri and pre else "clash_uri_only" if uri else "clash_prefix_only")
    if not uri and not pre:
        if exc is not None:
            fails.append((f"valid-collection-rejected/{type(exc).__name__}", f"{where}: no two different records share a string, yet {type(exc).__name__}: {str(exc)[:120]!r}"))
            return None
        # every prefix / URI prefix resolves to exactly one record; bimap / reverse_bimap mutually inverse bijections
        for p in model.all_prefixes():
            owners = [r for r in conv.records if p == r.prefix or p in r.prefix_synonyms]
            if len(owners) != 1 or conv.standardize_prefix(p) != owners[0].prefix:
                fails.append(("accepted-but-prefix-not-uniquely-owned", f"{where}: prefix {p!r} has owners {[o.prefix for o in owners]}"))
        for u in model.all_uri_prefixes():
            owners = [r for r in conv.records if u == r.uri_prefix or u in r.uri_prefix_synonyms]
            got = conv.parse_uri(u, return_none=True)
            if len(owners) != 1 or got is None or got[0] != owners[0].prefix:
                fails.append(("accepted-but-uri-prefix-not-uniquely-owned", f"{where}: URI prefix {u!r} has owners {[o.prefix for o in owners]}, parse_uri -> {got!r}"))
        if conv.get_prefixes(include_synonyms=True) != model.all_prefixes() or conv.get_uri_prefixes(include_synonyms=True) != model.all_uri_prefixes():
            fails.append(("accepted-but-views-incomplete", f"{where}: get_prefixes/get_uri_prefixes(include_synonyms=True) differ from the input"))
        bm, rbm = dict(conv.bimap), dict(conv.reverse_bimap)
        if not (len(bm) == len(rbm) == len(conv.records) == len(model.records)) or {v: k for k, v in bm.items()} != rbm:
            fails.append(("bimap-not-a-bijection", f"{where}: bimap {bm} reverse_bimap {rbm} records {len(conv.records)}"))
        if ctx is not None:
            ctx.state(hash(canon(conv)))
        return conv
    if exc is None:
        side = "uri" if uri else "prefix"
        fails.append((f"clashing-collection-accepted/{side}-side", f"{where}: accepted although {sorted(uri or pre)[:2]} are claimed by two records"))
        return None
    want = curies.DuplicateURIPrefixes if uri else curies.DuplicatePrefixes
    if type(exc) is not want:
        fails.append((f"wrong-exception/{type(exc).__name__}-instead-of-{want.__name__}", f"{where}: raised {type(exc).__name__}, URI clashes {sorted(uri)[:2]}, prefix clashes {sorted(pre)[:2]}"))
        return None
    if dupset(exc) != model_dupset(model, uri if uri else pre):
        fails.append(("duplicates-listing-differs", f"{where}: reported {sorted(dupset(exc))[:3]} expected {sorted(model_dupset(model, uri if uri else pre))[:3]}"))
    return None


def run_seq(seq, ctx=None):
    fails = []
    recs = recs_from_json(seq)
    model = Model(recs, ":")
    where = f"Converter({seq})"
    conv = check_result(lambda: Converter([to_record(r) for r in recs]), model, fails, where, ctx)
    if len(recs) >= 2:
        # the constructor takes any iterable of records, also a one-shot one
        check_result(lambda: Converter(to_record(r) for r in recs), model, fails, f"Converter(<generator over {seq}>)", ctx)
    if any(r.psyn or r.usyn for r in recs):
        # the synonym fields take any iterable, also a one-shot one (pydantic turns it into a list)
        def lazy():
            return Converter([Record(prefix=r.prefix, uri_prefix=r.uri_prefix, prefix_synonyms=(s_ for s_ in r.psyn), uri_prefix_synonyms=iter(list(r.usyn)), pattern=r.pattern) for r in recs])

        try:
            Record(prefix="zz", uri_prefix="zz/", prefix_synonyms=(s_ for s_ in ["q"]))
            lazy_ok = True
        except Exception:  # noqa  (a library that rejects one-shot iterables for these fields is not judged here)
            lazy_ok = False
        if lazy_ok:
            check_result(lazy, model, fails, f"Converter(<records of {seq} with their synonyms given as generators>)", ctx)
    w2 = f"from_extended_prefix_map({seq})"
    dicts = [{"prefix": r.prefix, "uri_prefix": r.uri_prefix, "prefix_synonyms": list(r.psyn), "uri_prefix_synonyms": list(r.usyn)} for r in recs]
    check_result(lambda: Converter.from_extended_prefix_map(dicts), model, fails, w2, ctx)
    if ctx is not None:
        ctx.count("evaluations", 2)
        if not fails:
            ctx.count("validated")
        u, p = model.clashes()
        ctx.distinct(hash((frozenset(u), frozenset(p), len(recs))))
    return fails


def ordered_dicts(keys, values_per_key):
    """All partial functions keys -> values (values_per_key lists the options, None = absent), in every key order."""
    for combo in it.product(*[[None] + list(values_per_key) for _ in keys]):
        items = [(k, v) for k, v in zip(keys, combo) if v is not None]
        for perm in it.permutations(items):
            yield list(perm)


def run_loader(kind, items, ctx=None):
    fails = []
    where = f"{kind} {items}"
    if kind in ("prefix_map", "jsonld"):
        model = Model([mrec(p, u) for p, u in items], ":")
        if kind == "prefix_map":
            check_result(lambda: Converter.from_prefix_map(dict(items)), model, fails, where, ctx)
        else:
            check_result(lambda: Converter.from_jsonld({"@context": dict(items)}), model, fails, where, ctx)
    elif kind == "priority_map":
        model = Model([mrec(p, us[0], (), us[1:]) for p, us in items], ":")
        check_result(lambda: Converter.from_priority_prefix_map({p: list(us) for p, us in items}), model, fails, where, ctx)
    elif kind == "reverse_map":
        groups = {}
        for u, p in items:
            groups.setdefault(p, []).append(u)
        # any member of minimal length may become canonical; the collection never clashes
        model = Model([mrec(p, sorted(us, key=len)[0], (), sorted(us, key=len)[1:]) for p, us in groups.items()], ":")
        try:
            conv = Converter.from_reverse_prefix_map(dict(items))
        except Exception as e:  # noqa
            fails.append((f"valid-collection-rejected/{type(e).__name__}", f"{where}: a reverse prefix map can never clash, yet {type(e).__name__}"))
            conv = None
        if conv is not None:
            if conv.get_uri_prefixes(include_synonyms=True) != {u for u, _ in items} or conv.get_prefixes(include_synonyms=True) != {p for _, p in items}:
                fails.append(("accepted-but-views-incomplete", f"{where}: prefixes / URI prefixes differ from the input"))
            for u, p in items:
                got = conv.parse_uri(u, return_none=True)
                if got is None or got[0] != p:
                    fails.append(("accepted-but-uri-prefix-not-uniquely-owned", f"{where}: parse_uri({u!r}) -> {got!r}"))
            if ctx is not None:
                ctx.count("transitions")
                ctx.count("valid")
    if ctx is not None:
        ctx.count("evaluations")
        ctx.count("loader_cases")
        if not fails:
            ctx.count("validated")
    return fails


def loader_cases(kind):
    if kind == "prefix_map":
        yield from ordered_dicts(P, U)
    elif kind == "jsonld":
        yield from ordered_dicts(P, U + ["", "@v"])   # the empty IRI and IRIs starting with '@' are ordinary URI prefixes
    elif kind == "priority_map":
        lists = [(u,) for u in U] + [(u, v) for u in U for v in U if u != v] + [("x", "X", "X")]
        yield from ordered_dicts(P, lists)
    elif kind == "reverse_map":
        yield from ordered_dicts(U, P)


def run_unit(unit, ctx):
    kind = unit["kind"]
    if kind == "seqs":
        last = None
        for recs in sequences_from(unit["tier"], unit["first"], unit["depth"]):
            if unit.get("only_len") and len(recs) != unit["only_len"]:
                continue
            seq = recs_to_json(recs)
            last = seq
            for sig, msg in run_seq(seq, ctx)[:2]:
                ctx.violation(f"C04/{sig}", msg, {"kind": "seq", "seq": seq})
        if last:
            ctx.sample({"kind": "seq", "seq": last})
    elif kind == "after-merge":
        alpha = seq_alphabet(unit["tier"], 3)
        a = alpha[unit["first"]]
        for b in alpha:
            for c in alpha:
                seq = recs_to_json([a, b, c])
                for sig, msg in run_after_merge(seq, ctx)[:2]:
                    ctx.violation(f"C04/{sig}", msg, {"kind": "after-merge", "seq": seq})
    elif kind == "sweep":
        for seq in unit["seqs"]:
            ctx.count("sweep_cases")
            for sig, msg in run_seq(seq, ctx)[:2]:
                ctx.violation(f"C04/{sig}", msg, {"kind": "seq", "seq": seq})
    elif kind == "process-history":
        for sig, msg in run_process_history(ctx)[:3]:
            ctx.violation(f"C04/{sig}", msg, {"kind": "process-history"})
    elif kind == "self-synonym":
        for sig, msg in run_self(ctx):
            ctx.violation(f"C04/{sig}", msg, {"kind": "self-synonym"})
    else:
        for i, items in enumerate(loader_cases(kind)):
            if i % unit["of"] != unit["part"]:
                continue
            for sig, msg in run_loader(kind, items, ctx)[:2]:
                ctx.violation(f"C04/{sig}", msg, {"kind": kind, "items": items})


def run_self(ctx=None):
    """A single record can never list its own canonical prefix / URI prefix among its synonyms."""
    fails = []
    for p in P + [""]:
        for extra in ([], ["q"], ["q", "r"]):
            for pos in range(len(extra) + 1):
                syn = extra[:pos] + [p] + extra[pos:]
                for side in ("prefix", "uri_prefix"):
                    kw = dict(prefix="k", uri_prefix="v")
                    kw[side] = p
                    kw[side + "_synonyms"] = syn
                    try:
                        Record(**kw)
                        fails.append((f"self-synonym-accepted/{side}", f"Record({kw}) accepted although {p!r} is its own {side}"))
                    except ValueError:
                        pass
                    # the same entry as a dictionary through the extended-prefix-map loader
                    d = dict(prefix=kw["prefix"], uri_prefix=kw["uri_prefix"], prefix_synonyms=kw.get("prefix_synonyms", []), uri_prefix_synonyms=kw.get("uri_prefix_synonyms", []))
                    for label, f in (("from_extended_prefix_map", lambda: Converter.from_extended_prefix_map([d])), ("load_extended_prefix_map", lambda: curies.load_extended_prefix_map([dict(d), {"prefix": "other", "uri_prefix": "o/"}]))):
                        try:
                            f()
                            fails.append((f"self-synonym-accepted/{side}/{label}", f"{label}([{d}]) accepted although {p!r} is its own {side}"))
                        except ValueError:
                            pass
                    if ctx is not None:
                        ctx.count("self_synonym_records")
                        ctx.count("evaluations", 3)
        for u in U:
            for lst in ([u, u], [u, "q", u], ["q", u, u][::-1]):
                try:
                    Converter.from_priority_prefix_map({p or "k": list(lst)})
                    if lst[0] in lst[1:]:
                        fails.append(("self-synonym-accepted/uri_prefix/from_priority_prefix_map", f"from_priority_prefix_map({{{p or 'k'!r}: {lst}}}) accepted although {lst[0]!r} repeats as its own synonym"))
                except ValueError:
                    pass
    return fails


def run_process_history(ctx=None):
    """The verdict on a collection depends on that collection alone, whatever was constructed or loaded before in the same
    process: (1) collections whose records differ only in how a string is split among synonyms (\"alt,p7\" vs \"alt\", \"p7\";
    no synonym vs the empty synonym), constructed one after the other in both orders, at sizes 3..130; (2) the same file path
    loaded again after its content changed from valid to clashing and back; (3) the caller's list changed after construction."""
    import json
    import os
    import tempfile

    fails = []
    for n in (3, 39, 40, 41, 64, 130):
        base = [mrec(f"p{i}", f"u{i}/") for i in range(n)]
        twins = [
            (base + [mrec("x", "ux/", ["alt,p1"])], base + [mrec("x", "ux/", ["alt", "p1"])]),           # valid / clash on p1
            (base + [mrec("x", "ux/", [], ["v,u1/"])], base + [mrec("x", "ux/", [], ["v", "u1/"])]),     # valid / clash on u1/
            (base + [mrec("", "e/"), mrec("x", "ux/")], base + [mrec("", "e/"), mrec("x", "ux/", [""])]),  # valid / clash on ""
            (base + [mrec("x", "ux/", ["p1,alt"][::-1])], base[:1] + base[2:] + [mrec("x", "ux/", ["alt", "p1"])]),   # valid / valid (p1 itself absent)
        ]
        for a, b in twins:
            for first, second in ((a, b), (b, a)):
                for coll in (first, second, first):
                    model = Model(coll, ":")
                    check_result(lambda c=coll: Converter([to_record(r) for r in c]), model, fails, f"Converter(<{len(coll)} records ending in {recs_to_json(coll[-2:])}>) after its twin collection was constructed in the same process", ctx)
                    if ctx is not None:
                        ctx.count("twin_collections")
                if fails:
                    return fails
    # (2) one path, changing content
    d = tempfile.mkdtemp(prefix="c04.", dir="/dev/shm" if os.path.isdir("/dev/shm") else None)
    try:
        path = os.path.join(d, "map.json")
        ok_map, ok_epm = {"a": "x/", "b": "y/"}, [{"prefix": "a", "uri_prefix": "x/"}, {"prefix": "b", "uri_prefix": "y/"}]
        bad_epm = [{"prefix": "a", "uri_prefix": "x/"}, {"prefix": "b", "uri_prefix": "y/", "prefix_synonyms": ["a"]}]
        bad_epm2 = [{"prefix": "a", "uri_prefix": "x/"}, {"prefix": "b", "uri_prefix": "y/", "uri_prefix_synonyms": ["x/"]}]
        from pathlib import Path

        for arg in (path, Path(path)):
            for content, loader, clash in ((ok_epm, curies.load_extended_prefix_map, None), (bad_epm, curies.load_extended_prefix_map, curies.DuplicatePrefixes),
                                           (ok_epm, curies.load_extended_prefix_map, None), (bad_epm2, curies.load_extended_prefix_map, curies.DuplicateURIPrefixes),
                                           (bad_epm, Converter.from_extended_prefix_map, curies.DuplicatePrefixes), (ok_epm, Converter.from_extended_prefix_map, None),
                                           (ok_map, curies.load_prefix_map, None), ({"a": "x/", "b": "x/"}, curies.load_prefix_map, curies.DuplicateURIPrefixes), (ok_map, curies.load_prefix_map, None)):
                with open(path, "w") as f:
                    json.dump(content, f)
                try:
                    loader(arg)
                    got = None
                except Exception as e:  # noqa
                    got = type(e)
                if ctx is not None:
                    ctx.count("file_reloads")
                    ctx.count("transitions")
                if got is not clash:
                    fails.append(("file-verdict-depends-on-earlier-loads-of-the-same-path", f"{loader.__name__}({type(arg).__name__}) with content {content}: {'accepted' if got is None else got.__name__}, expected {'accepted' if clash is None else clash.__name__}"))
    finally:
        import shutil

        shutil.rmtree(d, ignore_errors=True)
    # (3) the caller keeps its list
    for extra in (mrec("c", "x/"), mrec("a", "z/"), mrec("c", "z/", ["b"])):
        lst = [to_record(r) for r in (mrec("b", "y/"), mrec("a", "x/"))]
        conv = Converter(lst)
        lst.append(to_record(extra))
        lst.sort(key=lambda r: r.uri_prefix)
        try:
            other = Converter(conv.records)
            other.add_record(to_record(extra))
        except ValueError:
            pass
        model = Model([mrec("a", "x/"), mrec("b", "y/")], ":")
        check_result(lambda: conv, model, fails, f"Converter(lst) after lst.append({extra}) and after Converter(conv.records).add_record of the same", ctx)
        if len(conv.records) != 2:
            fails.append(("accepted-but-views-incomplete", f"Converter(lst) shows {len(conv.records)} records after the caller's list / a converter built from its records list grew"))
    return fails


def run_after_merge(seq, ctx=None):
    """Non-initial state: records that lived in a converter and gained synonyms through a merge are handed to the
    constructor again together with a record claiming one of the gained strings - this must be rejected - and alone -
    this must be accepted and own every gained string."""
    import copy

    fails = []
    recs = recs_from_json(seq)
    a, b, c = recs
    base = Model([a, b], ":")
    if not base.valid():
        return fails
    m = base.copy()
    outcome, idx = m.add_record(c, merge=True)
    if outcome != "merged":
        return fails
    gained_p = set(m.records[idx].prefixes) - set(base.records[idx].prefixes)
    gained_u = set(m.records[idx].uri_prefixes) - set(base.records[idx].uri_prefixes)
    if not gained_p and not gained_u:
        return fails
    try:
        conv = Converter([to_record(a), to_record(b)])
        conv.get_prefixes(include_synonyms=True)
        conv.add_record(to_record(c), merge=True)
    except ValueError as e:
        return [(f"valid-collection-rejected/{type(e).__name__}", f"Converter({[a, b]}) + add_record({c}, merge=True): {type(e).__name__}: {str(e)[:120]!r}")]
    live = list(conv.records)
    for how, objs in (("the-same-record-objects", live), ("deep-copies", copy.deepcopy(live))):
        where = f"Converter({[a, b]}) + add_record({c}, merge=True); constructor given {how}"
        model = Model(list(m.records), ":")
        check_result(lambda: Converter(list(objs)), model, fails, where, ctx)
        for s_ in sorted(gained_p):
            d = mrec("zz", "zz/", (s_,))
            model = Model(list(m.records) + [d], ":")
            check_result(lambda: Converter([*objs, to_record(d)]), model, fails, where + f" + a record claiming gained prefix {s_!r}", ctx)
        for u_ in sorted(gained_u):
            d = mrec("zz", "zz/", (), (u_,))
            model = Model(list(m.records) + [d], ":")
            check_result(lambda: Converter([*objs, to_record(d)]), model, fails, where + f" + a record claiming gained URI prefix {u_!r}", ctx)
    if ctx is not None:
        ctx.count("after_merge_histories")
        if not fails:
            ctx.count("validated")
    return fails


def replay(case):
    kind = case["kind"]
    if kind == "after-merge":
        return [(f"C04/{s}", m) for s, m in run_after_merge(case["seq"], None)]
    if kind == "seq":
        fails = run_seq(case["seq"], None)
    elif kind == "self-synonym":
        fails = run_self(None)
    elif kind == "process-history":
        fails = run_process_history(None)
    else:
        fails = run_loader(kind, [tuple(tuple(x) if isinstance(x, list) else x for x in item) for item in case["items"]], None)
    return [(f"C04/{s}", m) for s, m in fails]


def describe(tier):
    return {
        "level": "model_checking",
        "rule": "81 records over prefixes {a,A,b} x URI prefixes {x,X,xy} with <=1 synonym per side (+3 records repeating a value inside their "
        "own synonym list); every sequence of 1..3 of them (repetition allowed, order matters; thorough adds all 4-sequences over a 20-record "
        "sub-alphabet), through the constructor and from_extended_prefix_map; all partial prefix maps, priority maps, "
        "reverse maps and JSON-LD contexts over the same strings in every key order; self-synonym records (constructor and loaders); every "
        "history Converter([a,b]) + add_record(c, merge=True) whose live (or deep-copied) records are handed to the constructor again, alone and "
        "with a record claiming each gained string; distinct_nontrivial = distinct "
        "(URI clash set, prefix clash set, length) triples",
        "bounds": {"records_per_sequence": 3, "strings_per_side": 3},
        "exhaustive": True,
        "assumptions": ["duplicates are compared as a set of ({record, record}, string)"],
    }


def required_counters(tier):
    return ["valid", "clash_both_sides", "clash_uri_only", "clash_prefix_only", "self_synonym_records", "loader_cases", "after_merge_histories", "validated"]
