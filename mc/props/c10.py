"""C10 - deriving a new converter never alters the converters it was derived from.

Explores worlds of named live converters.  Level 1: every derivation (chain in both modes over all ordered input
pairs, get_subconverter, remap_curie_prefixes, remap_uri_prefixes, rewire, discover(converter=...)) with small argument
alphabets generated from the input's own strings; level 2: every follow-up add_record / add_prefix on the derived
converter (merging into inherited records through the canonical value, a synonym, a case variant; fresh; rejected);
level 3: a second follow-up or a derivation of the derived converter.  Every history is replayed on fresh objects and
after *every* step each converter that is not the step's target is re-observed (records, indexes, views, battery).
"""

from __future__ import annotations

from ..engine import chunks
from ..impl import Converter, Record, curies, model_of, snapshot, to_record
from ..refmodel import mrec
from ..universe import recs_from_json, recs_to_json

PROP = "C10"
from curies import chain, remap_curie_prefixes, remap_uri_prefixes, rewire  # noqa: E402
from curies.discovery import discover  # noqa: E402

INPUTS = [
    [mrec("a", "x/", ["a1"], ["x1/"]), mrec("b", "y/", ["b1"])],
    [mrec("a", "z/")],
    [mrec("a", "x/", ["k2", "k1"], ["z/", "y9/"])],   # synonym lists in priority order, not alphabetical
    [mrec("A", "X/", ["q"])],
    [mrec("c", "w/", [], [], "^1$"), mrec("b1", "v/")],
    [mrec("", "d/", ["dd"])],
    [mrec("b", "y/", [], ["x1/"])],
    [],
    [mrec("A", "Y/")],     # ignoring case it matches two different records of input 0 (one by CURIE prefix, one by URI prefix), exactly none
]

Q_PREFIXES = ["a", "a1", "A", "b", "b1", "c", "q", "", "dd", "n", "zz", "fresh", "newp"]
Q_URIS = ["x/", "x1/", "y/", "z/", "X/", "w/", "v/", "d/", "n/", "new1/", "new2/", "fresh/", "http://new/a_"]
QS = [p + ":1" for p in Q_PREFIXES] + [u + "1" for u in Q_URIS] + ["", "nodelim"]


def snap(conv):
    c, v, a = snapshot(conv, QS, Q_PREFIXES)
    # the records list and the bimap are observable in their order too
    order = (tuple(rec_key_ordered(r) for r in conv.records), tuple(conv.bimap.items()), tuple(conv.reverse_bimap.items()))
    return ((c, order), v, a)


def rec_key_ordered(r):
    return (r.prefix, r.uri_prefix, tuple(r.prefix_synonyms), tuple(r.uri_prefix_synonyms), r.pattern)


def derivations(model, other_idx):
    """Concrete level-1 steps for input c1 (described by its model)."""
    out = []
    recs = model.records
    P = [r.prefix for r in recs]
    syn = [s for r in recs for s in r.psyn]
    Us = [r.uri_prefix for r in recs]
    usyn = [s for r in recs for s in r.usyn]
    for j in other_idx:
        for cs in (True, False):
            out.append({"do": "chain", "src": ["c1", f"in{j}"], "cs": cs})
            out.append({"do": "chain", "src": [f"in{j}", "c1"], "cs": cs})
    for cs in (True, False):
        out.append({"do": "chain", "src": ["c1"], "cs": cs})
    subs = [sorted(model.all_prefixes()), P[:1], syn[:1], [], ["unknown"]]
    for s in subs:
        out.append({"do": "sub", "src": "c1", "P": s})
    p0 = P[0] if P else "unk"
    p1 = P[1] if len(P) > 1 else "unk2"
    s0 = syn[0] if syn else "unk3"
    for m in ([[p0, "n"]], [[s0, "n"]], [[p0, p1]], [[p0, "n"], [p1, p0]], [["unk", "n"]], [[p0, s0]], [[p0, "n"], [p1, "m"]]):
        out.append({"do": "remap_curie", "src": "c1", "m": m})
    u0 = Us[0] if Us else "unk/"
    u1 = Us[1] if len(Us) > 1 else "unk2/"
    us0 = usyn[0] if usyn else "unk3/"
    for m in ([[u0, "n/"]], [[us0, "n/"]], [[u0, u1]], [[u0, us0]], [["unk/", "n/"]], [[u0, "n/"], [u1, "m/"]]):
        out.append({"do": "remap_uri", "src": "c1", "m": m})
    for m in ([[p0, "n/"]], [[s0, "n/"]], [[p0, u1]], [[p0, us0]], [["unk", "n/"]], [[p0, "n/"], [p1, "m/"]]):
        out.append({"do": "rewire", "src": "c1", "m": m})
    out.append({"do": "discover", "src": "c1", "uris": [u0 + "1", "http://new/a_1", "http://new/a_2", us0 + "2"]})
    out.append({"do": "discover", "src": "c1", "uris": ["http://new/a_1"], "cutoff": 1})
    return out


def followups(conv):
    """Concrete mutations of a derived converter, generated from its current records."""
    out = []
    for r in conv.records[:2] + (conv.records[-1:] if len(conv.records) > 2 else []):   # the first two and the most recently appended
        out.append({"do": "add_prefix", "args": [r.prefix, "new1/"], "merge": True, "cs": True})
        out.append({"do": "add_prefix", "args": ["newp", r.uri_prefix], "merge": True, "cs": True})
        if r.prefix_synonyms:
            out.append({"do": "add_record", "rec": [r.prefix_synonyms[0], "new2/", ["newsyn"], ["new3/"], None], "merge": True, "cs": True})
        if r.uri_prefix_synonyms:
            out.append({"do": "add_record", "rec": ["newq", r.uri_prefix_synonyms[0], [], ["new4/"], None], "merge": True, "cs": True})
        if r.prefix.swapcase() != r.prefix:
            out.append({"do": "add_prefix", "args": [r.prefix.swapcase(), "new2/"], "merge": True, "cs": False})
        out.append({"do": "add_prefix", "args": [r.prefix, "new5/"], "merge": False, "cs": True})  # rejected
    out.append({"do": "add_prefix", "args": ["fresh", "fresh/", ["fr"], ["fresh2/"]], "merge": False, "cs": True})
    return out


def second_derivations(conv):
    out = [{"do": "sub", "src": "d1", "P": sorted(conv.get_prefixes(include_synonyms=True))},
           {"do": "chain", "src": ["d1", "c1"], "cs": True},
           {"do": "chain", "src": ["c1", "d1"], "cs": False}]
    if conv.records:
        p0, u0 = conv.records[0].prefix, conv.records[0].uri_prefix
        out.append({"do": "remap_curie", "src": "d1", "m": [[p0, "zz"]]})
        out.append({"do": "remap_uri", "src": "d1", "m": [[u0, "zz/"]]})
        out.append({"do": "rewire", "src": "d1", "m": [[p0, "zz/"]]})
    return out


def do_step(world, step, out_name):
    """Execute one step on the live world. Returns (target name, exception or None)."""
    kind = step["do"]
    try:
        if kind == "chain":
            world[out_name] = chain([world[n] for n in step["src"]], case_sensitive=step["cs"])
        elif kind == "sub":
            world[out_name] = world[step["src"]].get_subconverter(list(step["P"]))
        elif kind == "remap_curie":
            world[out_name] = remap_curie_prefixes(world[step["src"]], {k: v for k, v in step["m"]})
        elif kind == "remap_uri":
            world[out_name] = remap_uri_prefixes(world[step["src"]], {k: v for k, v in step["m"]})
        elif kind == "rewire":
            world[out_name] = rewire(world[step["src"]], {k: v for k, v in step["m"]})
        elif kind == "discover":
            world[out_name] = discover(list(step["uris"]), converter=world[step["src"]], cutoff=step.get("cutoff"))
        elif kind == "add_prefix":
            world[step["tgt"]].add_prefix(*step["args"], merge=step["merge"], case_sensitive=step["cs"])
            return step["tgt"], None
        elif kind == "add_record":
            j = step["rec"]
            world[step["tgt"]].add_record(Record(prefix=j[0], uri_prefix=j[1], prefix_synonyms=list(j[2]), uri_prefix_synonyms=list(j[3]), pattern=j[4]), merge=step["merge"], case_sensitive=step["cs"])
            return step["tgt"], None
        else:
            raise RuntimeError(kind)
    except (ValueError, NotImplementedError) as e:  # documented rejections
        return (step.get("tgt") or out_name), e
    return out_name, None


def make_conv(recs, incremental, delim=":"):
    if not incremental:
        return Converter([to_record(r) for r in recs], delimiter=delim)
    conv = Converter([], delimiter=delim)     # built incrementally, in reverse order: the records list is not sorted
    for r in reversed(recs):
        conv.add_record(to_record(r))
    return conv


def make_world(case):
    inc = case.get("incremental", False)
    world = {"c1": make_conv(recs_from_json(case["c1"]), inc, case.get("c1_delim", ":"))}
    for name, recs in case.get("others", {}).items():
        world[name] = make_conv(recs_from_json(recs), inc)
    return world


def run_history(case, ctx=None, want_world=False):
    """Replay a history on fresh objects, checking the frame invariant after every step."""
    fails = []
    world = make_world(case)
    snaps = {n: snap(c) for n, c in world.items()}
    first_derived_snap = None
    nd = 0
    for i, step in enumerate(case["steps"]):
        is_derive = step["do"] not in ("add_prefix", "add_record")
        if is_derive:
            nd += 1
        out_name = f"d{nd}"
        tgt, exc = do_step(world, step, out_name)
        if ctx is not None:
            ctx.count("transitions")
            if exc is not None:
                ctx.count("steps_rejected")
        if is_derive and exc is None:
            srcs = step["src"] if isinstance(step["src"], list) else [step["src"]]
            if any(world[out_name] is world[s] for s in srcs):
                fails.append((f"{step['do']}/returns-its-input-object", f"step {i} {step}: the result is the input object itself"))
        for n, c in world.items():
            if n == tgt:
                continue
            now = snap(c)
            if n in snaps and now != snaps[n]:
                parts = ["records+indexes", "views", "answers"]
                diff = [p for p, a, b in zip(parts, snaps[n], now) if a != b]
                role = "input" if n in ("c1",) or n.startswith("in") else "earlier-derived"
                phase = "derivation" if is_derive else "later-modification-of-derived"
                fails.append((f"{step['do']}/{role}-converter-changed-by-{phase}/{'+'.join(diff)}", f"step {i} {step}: converter {n} changed ({diff}); world built from {case['c1']} {case.get('others', {})}"))
        if fails:
            break
        if tgt in world:
            snaps[tgt] = snap(world[tgt])
        if is_derive and exc is None and out_name == "d1":
            first_derived_snap = snaps["d1"]
        if case.get("repeat") and is_derive and exc is None and out_name == "d2":
            if world["d2"] is world["d1"]:
                fails.append((f"{step['do']}/repeated-derivation-returns-the-same-object", f"step {i} {step}: the second call returned the object of the first"))
            elif snaps["d2"] != first_derived_snap:
                fails.append((f"{step['do']}/repeated-derivation-shows-later-modifications", f"step {i} {step}: the second result differs from what the first call returned before it was modified"))
            break
        if ctx is not None:
            ctx.count("evaluations", len(world) - 1)
    if want_world:
        return fails, world
    return fails


def expand_input(idx, ctx, only=None):
    c1 = INPUTS[idx]
    base = {"c1": recs_to_json(c1), "others": {f"in{j}": recs_to_json(INPUTS[j]) for j in range(len(INPUTS))}}
    from ..refmodel import Model

    model = Model(c1, ":")
    for k, d in enumerate(derivations(model, range(len(INPUTS)))):
        if only is not None and k not in only:
            continue
        others = {n: base["others"][n] for n in (d["src"] if isinstance(d["src"], list) else []) if n != "c1"}
        case1 = {"c1": base["c1"], "others": others, "steps": [d]}
        # the same derivation on inputs that were built incrementally (their records list is not in sorted order)
        case1i = dict(case1, incremental=True)
        fi = run_history(case1i, ctx)
        report(ctx, case1i, fi)
        if not fi:
            ctx.count("validated")
            ctx.count("derivations_on_incrementally_built_inputs")
        # ... and on an input that writes CURIEs with another delimiter (its setting is its own, too)
        case1d = dict(case1, c1_delim="/")
        fd = run_history(case1d, ctx)
        report(ctx, case1d, fd)
        if not fd:
            ctx.count("validated")
            ctx.count("derivations_on_inputs_with_other_delimiter")
        fails, world = run_history(case1, ctx, want_world=True)
        report(ctx, case1, fails)
        if fails or "d1" not in world:
            continue
        ctx.count("validated")
        ctx.count("derivations_" + d["do"])
        from ..impl import canon

        ctx.state(hash(canon(world["d1"])))
        f1 = followups(world["d1"])
        for a in f1:
            a = dict(a, tgt="d1")
            case2 = {"c1": base["c1"], "others": others, "steps": [d, a]}
            fails, world2 = run_history(case2, ctx, want_world=True)
            report(ctx, case2, fails)
            if fails:
                continue
            ctx.count("validated")
            ctx.state(hash(canon(world2["d1"])))
            if len(world2["d1"].records) and canon(world2["d1"]) != canon(world["d1"]):
                ctx.count("derived_actually_mutated")
                ctx.distinct(hash((canon(world2["d1"]), idx)))
            for b in followups(world2["d1"])[:8]:
                b = dict(b, tgt="d1")
                case3 = {"c1": base["c1"], "others": others, "steps": [d, a, b]}
                if TIER == "thorough":
                    fails, world3 = run_history(case3, ctx, want_world=True)
                else:
                    fails, world3 = run_history(case3, ctx), None
                report(ctx, case3, fails)
                if not fails:
                    ctx.count("validated")
                if world3 is not None and not fails and "d1" in world3:
                    # thorough: a derivation of the twice-modified derived converter, and a third modification
                    for d3 in second_derivations(world3["d1"])[:4] + [dict(x, tgt="d1") for x in followups(world3["d1"])[:3]]:
                        case4 = {"c1": base["c1"], "others": others, "steps": [d, a, b, d3]}
                        f4 = run_history(case4, ctx)
                        report(ctx, case4, f4)
                        if not f4:
                            ctx.count("validated")
                            ctx.count("depth4_histories")
            # the same derivation once more: it must hand out a new object that does not show the follow-up
            case3 = {"c1": base["c1"], "others": others, "steps": [d, a, d], "repeat": True}
            fails = run_history(case3, ctx)
            report(ctx, case3, fails)
            if not fails:
                ctx.count("validated")
                ctx.count("repeated_derivations")
            for d2 in second_derivations(world2["d1"]):
                case3 = {"c1": base["c1"], "others": others, "steps": [d, a, d2]}
                fails = run_history(case3, ctx)
                report(ctx, case3, fails)
                if not fails:
                    ctx.count("validated")
                    ctx.count("second_level_derivations")
        ctx.sample(case1)


def expand_triples(idx, ctx):
    """Chains of three converters (c1 in each position, every ordered pair of other inputs, both case modes): a record of the
    third may be merged into a record that already absorbed one of the second. No follow-ups: the frame is checked right after."""
    base = {"c1": recs_to_json(INPUTS[idx]), "others": {f"in{j}": recs_to_json(INPUTS[j]) for j in range(len(INPUTS))}}
    n = len(INPUTS)
    for j in range(n):
        for k in range(n):
            for pos in range(3):
                src = [f"in{j}", f"in{k}"]
                src.insert(pos, "c1")
                for cs in (True, False):
                    case = {"c1": base["c1"], "others": {m_: base["others"][m_] for m_ in src if m_ != "c1"}, "steps": [{"do": "chain", "src": src, "cs": cs}]}
                    fails = run_history(case, ctx)
                    report(ctx, case, fails)
                    ctx.count("chains_of_three")
                    if not fails:
                        ctx.count("validated")


def report(ctx, case, fails):
    for sig, msg in fails[:2]:
        ctx.violation("C10/" + sig, msg, case)


TIER = "quick"


def units(tier, seed):
    from ..refmodel import Model

    out = []
    for i in range(len(INPUTS)):
        n = len(derivations(Model(INPUTS[i], ":"), range(len(INPUTS))))
        out.extend({"input": i, "derivations": ch, "tier": tier} for ch in chunks(list(range(n)), 16 if tier == "quick" else 64))
        out.append({"input": i, "triples": True, "tier": tier})
    return out


def run_unit(unit, ctx):
    global TIER
    TIER = unit.get("tier", "quick")
    if unit.get("triples"):
        expand_triples(unit["input"], ctx)
        return
    expand_input(unit["input"], ctx, set(unit["derivations"]))


def replay(case):
    return [("C10/" + s, m) for s, m in run_history(case, None)]


def describe(tier):
    return {
        "level": "model_checking",
        "rule": "worlds of live converters built from 8 inputs (synonyms on both sides, case variants, empty prefix, pattern, a bridging one, the "
        "empty converter); level 1: chain over all ordered input pairs x 2 modes, 5 get_subconverter subsets, 7 CURIE remappings, 6 URI "
        "remappings, 6 rewirings, 2 discover calls (arguments generated from the input's own strings: canonical, synonym, clash, transitive, "
        "unknown); level 2: up to 13 add_prefix/add_record follow-ups on the derived converter (merge through canonical value / synonym / "
        "case variant, fresh, rejected); level 3: 8 further follow-ups or 6 derivations of the derived converter; every history replayed "
        "on fresh objects, all non-target converters re-observed after every step; distinct_nontrivial = distinct derived states that a "
        "follow-up actually changed",
        "bounds": {"inputs": len(INPUTS), "depth": 3 if tier == "quick" else 4},
        "exhaustive": True,
        "assumptions": ["a documented rejection (ValueError / NotImplementedError) of a step is allowed; the frame invariant must hold after it too"],
    }


def required_counters(tier):
    return ["validated", "derivations_on_incrementally_built_inputs", "derived_actually_mutated", "repeated_derivations", "second_level_derivations", "steps_rejected"] + [f"derivations_{k}" for k in ("chain", "sub", "remap_curie", "remap_uri", "rewire", "discover")]
