"""The joint CURIE/URI universe shared by C03, C06, C07 and C08, and the driver that runs a property's per-configuration
check over it.

Records are drawn from CURIE strings {"", a, A, x} x URI strings {"", x, x:, a:, a:x, xy, X} with at most one synonym
per side.  The alphabet is built so that strings are simultaneously CURIEs and URIs of the same converter (URI prefix
"x:" with CURIE prefix "x"; CURIE prefix "a" that is the head of URI prefix "a:"), URI prefixes nest (x, x:, xy; a:,
a:x), the empty prefix occurs on both sides, and case variants exist.  For the delimiter "/" every ":" inside the
strings is rewritten to "/" so the ambiguity is preserved.
"""

from __future__ import annotations

import itertools as it

from ..engine import chunks
from ..impl import Converter, Record, canon, to_record
from ..refmodel import Model, mrec
from ..universe import recs_from_json, recs_to_json, strings

SIGMA_P = ["", "a", "A", "x"]
SIGMA_U = ["", "x", "x:", "a:", "a:x", "xy", "X"]
DELIMS = [":", "/", "::"]


def record_pool():
    """(records without synonym, records with exactly one synonym, records with two)"""
    r0, r1, r2 = [], [], []
    for p in SIGMA_P:
        for u in SIGMA_U:
            r0.append(mrec(p, u))
            for ps in SIGMA_P:
                if ps != p:
                    r1.append(mrec(p, u, [ps]))
            for us in SIGMA_U:
                if us != u:
                    r1.append(mrec(p, u, [], [us]))
            for ps in SIGMA_P:
                for us in SIGMA_U:
                    if ps != p and us != u:
                        r2.append(mrec(p, u, [ps], [us]))
    return r0, r1, r2


def configurations(tier):
    """Deterministic list of valid configurations (lists of MRec), simplest first."""
    r0, r1, r2 = record_pool()
    out = []
    for r in r0 + r1 + r2:
        out.append([r])
    if tier == "quick":
        pairs = it.chain(it.combinations(r0, 2), it.product(r0, r1))
    else:
        allr = r0 + r1 + r2
        pairs = it.chain(it.combinations(r0, 2), it.product(r0, r1), it.combinations(r1, 2), it.product(r0 + r1, r2), it.combinations(r2, 2))
    for a, b in pairs:
        if Model([a, b]).valid():
            out.append([a, b])
    n3 = r0 if tier == "thorough" else [r for r in r0 if r.uri_prefix in ("", "x", "x:", "a:") and r.prefix in ("", "a", "x")]
    for combo in it.combinations(n3, 3):
        if Model(combo).valid():
            out.append(list(combo))
    return out


def rewrite(recs, d):
    """Rewrite ':' inside all strings to the delimiter d."""
    if d in (":", ""):
        return list(recs)
    f = lambda s: s.replace(":", d)  # noqa
    return [mrec(f(r.prefix), f(r.uri_prefix), [f(s) for s in r.psyn], [f(s) for s in r.usyn], r.pattern) for r in recs]


_Q = {}


def queries(d, n=3):
    """All strings up to length n over {a, A, x, X, y, delimiter}, plus z-variants and longer both-CURIE-and-URI strings."""
    if (d, n) not in _Q:
        qs = list(strings(["a", "A", "x", "X", "y", d], n))
        extra = ["z", "z" + d + "1", d + "z", "a" + d + "x1", "x" + d + "a" + d + "x", "a" + d + "x" + d + "1", "x" + d + d + "1",
                 "xy1", "xyz", "a" + d + "xy", "a" + d + "b" + d + "1", "a" + d + "b" + d + "y", d + "x" + d + "y", "x" + d + "y" + d, " ", "a" + d + " 1", "x" + d + "é", "é"]
        seen = set(qs)
        for e in extra:
            if e not in seen:
                seen.add(e)
                qs.append(e)
        _Q[(d, n)] = qs
    return _Q[(d, n)]


PREFIX_QUERIES = ["", "a", "A", "x", "X", "z", "B", "a ", "ax"]
IDENTIFIERS = ["", "1", "x", ":", "/", "1:2", "a:1", " ", "y", "Xa"]   # the last two matter to the identifier hook of the subclass runs
_EXTRA = {"p": [], "i": []}     # set while a sweep case runs: the registered prefixes (+ near-miss variants) and token identifiers


def prefix_queries():
    return PREFIX_QUERIES + [p for p in _EXTRA["p"] if p not in PREFIX_QUERIES]


def identifiers():
    return IDENTIFIERS + [i for i in _EXTRA["i"] if i not in IDENTIFIERS]


def build_merge_late(recs, delim, probe=None):
    """Canonical pairs first; every synonym arrives later through add_record(merge=True)."""
    conv = Converter([], delimiter=delim)
    m = Model([], delim)
    for r in recs:
        conv.add_record(Record(prefix=r.prefix, uri_prefix=r.uri_prefix, pattern=r.pattern))
        m.records.append(mrec(r.prefix, r.uri_prefix, (), (), r.pattern))
    if probe:
        probe(conv, m)
    for i, r in enumerate(recs):
        for s in r.psyn:
            conv.add_record(Record(prefix=s, uri_prefix=r.uri_prefix), merge=True)
            cur = m.records[i]
            m.records[i] = mrec(cur.prefix, cur.uri_prefix, cur.psyn + (s,), cur.usyn, cur.pattern)
            if probe:
                probe(conv, m)
        for s in r.usyn:
            conv.add_record(Record(prefix=r.prefix, uri_prefix=s), merge=True)
            cur = m.records[i]
            m.records[i] = mrec(cur.prefix, cur.uri_prefix, cur.psyn, cur.usyn + (s,), cur.pattern)
            if probe:
                probe(conv, m)
    return conv


def build_copies(recs, delim):
    """Copies of a converter are converters: a deep copy and a pickle round trip of the converter holding all but the last
    record each learn the last record afterwards (the deep copy by add_record, the pickled one by a merging add_prefix of a
    synonym first); the original learns something else.  Returns (deep copy, [(other object, its model), ...])."""
    import copy
    import pickle

    base = Converter([to_record(r) for r in recs[:-1]], delimiter=delim)
    from ..impl import observe

    observe(base, queries(delim, 2)[:40], PREFIX_QUERIES)     # whatever the object memoises is memoised before it is copied
    deep = copy.deepcopy(base)
    pick = pickle.loads(pickle.dumps(base))
    last = recs[-1]
    deep.add_record(to_record(last))
    pick.add_record(Record(prefix=last.prefix, uri_prefix=last.uri_prefix, pattern=last.pattern))
    for s_ in last.psyn:
        pick.add_record(Record(prefix=s_, uri_prefix=last.uri_prefix), merge=True)
    for s_ in last.usyn:
        pick.add_record(Record(prefix=last.prefix, uri_prefix=s_), merge=True)
    shallow = copy.copy(base)      # a shallow copy shares everything with the original: whatever one learns, both list and both answer for
    base.add_prefix("zz5", "zz5/", prefix_synonyms=["zz5s"])
    m5 = Model(list(recs[:-1]) + [mrec("zz5", "zz5/", ["zz5s"])], delim)
    others = [(pick, Model(recs, delim)), (base, m5)]
    from ..impl import model_of

    if model_of(shallow).record_set() == m5.record_set():
        shallow.add_prefix("zz4", "zz4/")
        m4 = Model(m5.records + [mrec("zz4", "zz4/")], delim)
        if model_of(base).record_set() == m4.record_set():
            others = [(pick, Model(recs, delim)), (base, m4), (shallow, m4)]
        else:   # (an implementation may give shallow copies their own records list: then each answers for its own)
            others = [(pick, Model(recs, delim)), (base, Model(model_of(base).records, delim)), (shallow, Model(model_of(shallow).records, delim))]
    else:
        others.append((shallow, Model(model_of(shallow).records, delim)))
    return deep, others


EXOTIC_DELIMS = ["%3A", "%", "%%", "{}", "\\", " ", "é", "a", "#", "_", "="]   # characters that are special to formatting / escaping / the alphabet itself


def dip_configs():
    """CURIE prefixes that contain the delimiter (legal; CURIEs written with them cannot be re-split, URIs still parse)."""
    return [
        [mrec("a:b", "x")],
        [mrec("a", "x"), mrec("a:b", "y")],
        [mrec("x", "x:"), mrec("x:a", "x:a")],          # nested URI prefixes whose owners are 'x' and 'x:a'
        [mrec("a", "x", ["a:c"])],
        [mrec("a:b", "xy", ["A"], ["X"])],
        [mrec(":", "x")],
        [mrec("a:", "x"), mrec("", "y")],
    ]


def sweep_units(tier):
    """Breadth sweeps (mc/sweeps.py): every token in every string role, twin names, realistic URL prefixes."""
    from .. import sweeps

    out = []
    for toks in chunks(list(sweeps.TOKENS), 12):
        out.append({"tier": tier, "kind": "sweep", "cases": [{"recs": recs_to_json(sweeps.token_config(t)), "delim": ":", "tokens": [t]} for t in toks]})
    tw = sweeps.twin_configs()
    for ch in chunks(tw, 4):
        out.append({"tier": tier, "kind": "sweep", "cases": [{"recs": recs_to_json(c), "delim": ":", "tokens": []} for c in ch]})
    real = list(sweeps.REALISTIC)
    cases = [{"recs": recs_to_json(real), "delim": ":", "tokens": [], "idents": sweeps.REALISTIC_IDENTS},
             {"recs": recs_to_json(real[::-1]), "delim": ":", "tokens": [], "idents": sweeps.REALISTIC_IDENTS}]
    for i in range(len(real)):
        cases.append({"recs": recs_to_json(real[:i] + real[i + 1:]), "delim": ":", "tokens": [], "idents": sweeps.REALISTIC_IDENTS[:6]})
    for ch in chunks(cases, 3):
        out.append({"tier": tier, "kind": "sweep", "cases": ch})
    return out


def units(tier, seed, nchunks=128, hist_depth=None, delim_in_prefix=False, hook=False, shared_records=False, prefix_subclass=False, empty_delim=False):
    cfgs = configurations(tier)
    out = [{"tier": tier, "cfgs": [recs_to_json(c) for c in ch]} for ch in chunks(cfgs, nchunks)]
    out.extend(sweep_units(tier))
    # a small configuration set under unusual delimiters
    r0, r1, _ = record_pool()
    small = [[r] for r in r0 if "a" not in r.prefix] + [[a, b] for a, b in it.combinations([r for r in r0 if r.prefix in ("", "x") and r.uri_prefix in ("x", "x:", "xy", "a:", "a:x")], 2) if Model([a, b]).valid()]
    # nested URI prefixes of which one is a synonym (so that standardisation is observable), across two records and inside one
    small += [[mrec("x", "X", [], ["a:x"]), mrec("", "a:")], [mrec("x", "a:", [], ["y"]), mrec("", "X", [], ["a:x"])], [mrec("x", "a:", [], ["a:x"])], [mrec("x", "a:x", [], ["a:"])]]
    out.append({"tier": tier, "cfgs": [recs_to_json(c) for c in small], "delims": EXOTIC_DELIMS, "qlen": 2})
    if empty_delim:
        # the empty string as delimiter: no string can be split, which is a miss like any other (only for C08, whose oracle is the mode matrix)
        out.append({"tier": tier, "cfgs": [recs_to_json(c) for c in small[:40]], "delims": [""], "qlen": 2, "mode": "ctor"})
    if delim_in_prefix:
        out.append({"tier": tier, "cfgs": [recs_to_json(c) for c in dip_configs()], "delims": DELIMS})
    if hook and (delim_in_prefix or shared_records):
        # the identifier hook next to CURIE prefixes that contain the delimiter
        out.append({"tier": tier, "cfgs": [recs_to_json(c) for c in dip_configs()], "delims": [":", "/"], "hook": True})
    if shared_records:
        # states in which the records list and the lookup structures legitimately differ: two converters built from the same
        # Record objects / a shallow copy, one of which learns something later (only for checks whose oracle does not need
        # the records list to be authoritative, i.e. C08's mode matrix)
        sub = [c for i, c in enumerate(cfgs) if i % 9 == 4][:400]
        for ch in chunks(sub, 8):
            out.append({"tier": tier, "cfgs": [recs_to_json(c) for c in ch], "delims": [":", "/"], "mode": "shared-records", "qlen": 2})
    if prefix_subclass:
        # a subclass overriding standardize_prefix (case-insensitive lookup), on a subset of the configurations
        sub = [c for i, c in enumerate(cfgs) if i % 9 == 2][:400]
        for ch in chunks(sub, 8):
            out.append({"tier": tier, "cfgs": [recs_to_json(c) for c in ch], "delims": [":", "/"], "mode": "subclass-prefix", "qlen": 2})
    if hook:
        # a subclass using the documented identifier hook, on a subset of the configurations
        sub = [c for i, c in enumerate(cfgs) if i % 9 == 0][:400]
        for ch in chunks(sub, 8):
            out.append({"tier": tier, "cfgs": [recs_to_json(c) for c in ch], "delims": [":", "/"], "hook": True, "qlen": 2})
    if hist_depth is None:
        hist_depth = 2
    if hist_depth:
        out.extend(hist_units(tier, hist_depth))
    return out


def hist_units(tier, depth):
    """Second phase: states reached incrementally - every history of <= depth add_record/add_prefix operations of the
    C05 alphabet (all flag combinations, overlapping / bridging / case-variant records) from the C05 initial states."""
    from . import c05

    ops = c05.all_ops("quick")
    inits = [recs_to_json(i) for i in c05.INITS]
    out = []
    for init in inits:
        for first in chunks(list(range(len(ops))), 16):
            out.append({"tier": tier, "kind": "hist", "init": init, "first": first, "depth": depth})
    return out


def hist_cases(unit):
    from . import c05

    ops = c05.all_ops("quick")
    for i in unit["first"]:
        yield {"init": unit["init"], "ops": [ops[i]], "delim": ":"}
        if unit["depth"] >= 2:
            for j in range(len(ops)):
                yield {"init": unit["init"], "ops": [ops[i], ops[j]], "delim": ":"}


def run_hist_case(check_config, case, ctx=None):
    """Build the state by replaying the history on fresh real objects (reference model in lock-step), then check it."""
    from . import c05

    fails = []
    init = recs_from_json(case["init"])
    conv = Converter([to_record(r) for r in init])
    model = Model(list(init), ":")
    nmerge = 0
    from ..impl import observe

    Q = c05.Q + ["a:", ":a", "b:1", "c:1", "d:1", "A:1"]
    for op in case["ops"]:
        # observe on the live object before every mutation (plants whatever the code under test may memoise),
        # in every reporting mode
        observe(conv, Q, c05.QUERY_PREFIXES)
        for q in Q[:12]:
            for kw in ({"passthrough": True}, {"strict": True}):
                for f in (conv.compress, conv.expand, conv.standardize_uri, conv.standardize_curie):
                    try:
                        f(q, **kw)
                    except ValueError:
                        pass
        exc = c05.apply_op(conv, op)
        outcome, _ = model.add_record(c05.rec_from_json(op["rec"]), case_sensitive=op["cs"], merge=op["merge"])
        if (exc is not None) != (outcome == "rejected"):
            # accept/reject disagreement is C05's subject; the state is not one the model can describe -> skip
            return fails
        if outcome == "merged":
            nmerge += 1
    if ctx is not None:
        ctx.state(hash(canon(conv)))
        ctx.count("transitions", len(case["ops"]))
        ctx.count("incremental_states")
        if nmerge:
            ctx.count("incremental_states_after_merge")
    where = f"converter {case['init']} after {[(o['via'], o['rec'], o['cs'], o['merge']) for o in case['ops']]}"
    check_config(conv, model, Q, fails, where, None)
    if ctx is not None and not fails:
        ctx.count("validated")
    return [(f[0], f[1], "hist") for f in fails]


def run_case(check_config, case, ctx=None):
    """case = {"recs", "delim", "mode"?}; runs check_config(conv, model, Q, fails, where, ctx) on each mode."""
    fails = []
    d = case["delim"]
    recs = rewrite(recs_from_json(case["recs"]), d)
    model = Model(recs, d)
    if "tokens" in case:
        from .. import sweeps

        Q = sweeps.config_queries(model, case["tokens"], case.get("idents", sweeps.IDENTS))
        regs = sorted(model.all_prefixes())
        _EXTRA["p"] = list(dict.fromkeys(regs + [v for p in regs for v in sweeps.variants(p)]))
        _EXTRA["i"] = list(dict.fromkeys(list(case.get("idents", sweeps.IDENTS)) + [i for t in case["tokens"] for i in (t, "1" + t)]))
    else:
        Q = queries(d, case.get("qlen", 3))
        _EXTRA["p"], _EXTRA["i"] = [], []
    modes = [case["mode"]] if case.get("mode") else ["ctor", "merge-late", "chain-of-singletons", "sub-by-synonym", "shared-list", "copies"] + (["subclass-hook"] if case.get("hook") else [])
    for mode in modes:
        if mode == "merge-late" and not any(r.psyn or r.usyn for r in recs):
            continue
        if mode in ("chain-of-singletons", "sub-by-synonym"):
            # derived converters are strict converters too (and keep the delimiter of the converter they come from)
            if case.get("qlen") or (mode == "chain-of-singletons" and len(recs) < 2) or (mode == "sub-by-synonym" and not any(r.psyn for r in recs)):
                continue
        where = f"records {recs_to_json(recs)} delimiter {d!r} mode {mode}"
        inputs = []
        if mode == "shared-list" and (d != ":" or case.get("qlen")):
            continue
        if mode == "copies" and (case.get("qlen") or len(recs) < 2):
            continue
        cur_model = model
        try:
            if mode == "ctor":
                conv = Converter([to_record(r) for r in recs], delimiter=d)
            elif mode == "shared-list":
                from ..impl import build_shared_list, model_of

                conv = build_shared_list(recs, d)
                # whatever conv.records lists is what the converter must answer for
                cur_model = Model(model_of(conv).records, d)
            elif mode == "subclass-hook":
                from ..impl import HookedConverter, ident_hook

                conv = HookedConverter([to_record(r) for r in recs], delimiter=d)
                cur_model = Model(recs, d, hook=ident_hook)
            elif mode == "copies":
                conv, inputs = build_copies(recs, d)
            elif mode == "subclass-prefix":
                from ..impl import FoldingConverter

                conv = FoldingConverter([to_record(r) for r in recs], delimiter=d)
            elif mode == "shared-records":
                import copy as _copy

                rs = [to_record(r) for r in recs]
                conv, other = Converter(rs, delimiter=d), Converter(rs, delimiter=d)
                shallow = _copy.copy(conv)
                first = recs[0]
                other.add_record(Record(prefix="zs9", uri_prefix=first.uri_prefix), merge=True)
                other.add_record(Record(prefix=first.prefix, uri_prefix="zs9/"), merge=True)
                shallow.add_prefix("zt9", "zt9/", prefix_synonyms=["zt9s"])
                shallow.add_record(Record(prefix="zu9", uri_prefix=first.uri_prefix), merge=True)
                _EXTRA["p"] = ["zs9", "zt9", "zt9s", "zu9"]
                Q = Q + ["zs9" + d + "1", "zs9/1", "zt9" + d + "1", "zt9/1", "zt9s" + d + "1", "zu9" + d + "1"]
                inputs = [(other, cur_model), (shallow, cur_model)]
            elif mode == "merge-late":
                conv = build_merge_late(recs, d)
            elif mode == "chain-of-singletons":
                from ..impl import curies as _curies

                inputs = [(Converter([to_record(r)], delimiter=d), Model([r], d)) for r in recs]
                conv = _curies.chain([c for c, _ in inputs])
            else:
                parent = Converter([to_record(r) for r in recs] + [to_record(mrec("zz9", "zz9/"))], delimiter=d)
                inputs = [(parent, Model(recs + [mrec("zz9", "zz9/")], d))]
                conv = parent.get_subconverter([r.psyn[0] if r.psyn else r.prefix for r in recs])
        except Exception as e:  # noqa
            fails.append(("construction-raises/" + mode, f"{where}: {type(e).__name__}: {e}", mode))
            continue
        if ctx is not None:
            ctx.state(hash(canon(conv)))
            ctx.count("transitions", 1 if mode == "ctor" else len(recs) + sum(len(r.psyn) + len(r.usyn) for r in recs))
            if mode == "ctor":
                ctx.count("configurations")
        before = len(fails)
        check_config(conv, cur_model, Q, fails, where, ctx if mode == "ctor" else None)
        for c_in, m_in in inputs:
            # the converters the result was derived from still answer for themselves
            if len(fails) == before:
                zq = [z + t for z in ("zz4", "zz5", "zz5s", "zz9", "zs9", "zt9") for t in ("/1", d + "1")]
                check_config(c_in, m_in, Q[:120] + zq, fails, where + " (an input of the derivation / a relative, afterwards)", None)
        if ctx is not None and len(fails) == before:
            ctx.count("validated")
        for i in range(before, len(fails)):
            if len(fails[i]) == 2:
                fails[i] = (fails[i][0], fails[i][1], mode)
        if len(fails) > before:
            break
    return fails


def run_unit_with(check_config, prop, unit, ctx):
    if unit.get("kind") == "sweep":
        for case in unit["cases"]:
            fails = run_case(check_config, case, ctx)
            ctx.count("sweep_cases")
            for sig, msg, mode in fails[:2]:
                c = dict(case)
                c["mode"] = mode
                ctx.violation(f"{prop}/{sig}", msg, c)
        return
    if unit.get("kind") == "hist":
        for case in hist_cases(unit):
            fails = run_hist_case(check_config, case, ctx)
            for sig, msg, _ in fails[:2]:
                ctx.violation(f"{prop}/{sig}", msg, case)
        return
    for recs in unit["cfgs"]:
        for d in unit.get("delims", DELIMS):
            case = {"recs": recs, "delim": d}
            if unit.get("qlen"):
                case["qlen"] = unit["qlen"]
            if unit.get("hook"):
                case["hook"] = True
                case["mode"] = "subclass-hook"
            if unit.get("mode"):
                case["mode"] = unit["mode"]
            fails = run_case(check_config, case, ctx)
            if len(recs) >= 2:
                ctx.sample(case)
            for sig, msg, mode in fails[:2]:
                c = dict(case)
                c["mode"] = mode
                ctx.violation(f"{prop}/{sig}", msg, c)


def replay_with(check_config, prop, case):
    if "ops" in case:
        return [(f"{prop}/{sig}", msg) for sig, msg, _ in run_hist_case(check_config, case, None)]
    return [(f"{prop}/{sig}", msg) for sig, msg, _ in run_case(check_config, case, None)]


def nocolon(model):
    """CURIE prefixes of the configuration do not contain the delimiter (quantifier of C02/C03; assumption for C06/C07 round trips)."""
    return all(model.delimiter not in p for p in model.all_prefixes())
