"""C12 - URI-prefix remapping and rewiring re-point records without losing information.

Every injective dictionary of <= 3 (quick) / 4 (thorough) pairs - keys over the base converter's canonical URI
prefixes, URI synonyms and unknown strings (remap_uri_prefixes) resp. canonical CURIE prefixes, synonyms and unknown
strings (rewire); values over canonical URI prefixes, synonyms, other records' strings and unknown strings - in every
key order, applied to three base converters on the real code and once more to its own result.
"""

from __future__ import annotations

import collections
import collections.abc
import types

import copy
import itertools as it

from ..engine import chunks
from ..impl import Converter, canon, indexes, model_of
from . import c11

PROP = "C12"
HASHSEEDS = (1, 2)  # thorough tier: the sweep is repeated under these PYTHONHASHSEED values (sets are iterated inside the code under test)
from curies import remap_uri_prefixes, rewire  # noqa: E402
from curies.reconciliation import TransitiveError  # noqa: E402

URI_NAMES = {0: ["x", "y", "z", "x1", "n", "m"], 1: ["x", "y", "z", "y1", "y2", "n", "m"], 2: ["x", "y", "z", "x1", "n", "m"], 3: ["d", "y", "z", "d1", "n", "m"]}
# values additionally range over the empty URI prefix (legal, unused) and an unused string extending another record's prefix
EXTRA_VALUES = ["", "y9"]
CURIE_NAMES = {0: ["a", "b", "c", "a1", "b1", "k", "l"], 1: ["a", "b", "c", "a1", "a2", "b1", "k"], 2: ["a", "b", "c", "a1", "b1", "k", "l"], 3: ["", "b", "c", "dd", "b1", "k", "l"]}


def max_pairs(tier):
    return 3 if tier == "quick" else 4


def sweep_cases():
    """Breadth sweeps (mc/sweeps.py): every token in every role of a remapping / rewiring, near-miss variants as keys (unknown:
    nothing may happen) and as values (a different string: a new canonical URI prefix), twin strings inside one record."""
    from .. import sweeps
    from ..refmodel import mrec
    from ..universe import recs_to_json as J

    out = []

    def add(op, base, m):
        if len(set(m.values())) == len(m):
            out.append({"op": op, "base": J(base), "pairs": [[k, v] for k, v in m.items()]})

    for t in sweeps.TOKENS:
        tp = "" if ":" in t else t
        U, V, W, N, M = "u" + t, "v" + t, "w" + t, "n" + t, "m" + t
        base = [mrec("p" + tp, U, ["q" + tp], [V]), mrec("r", W)]
        for m in ({U: N}, {V: N}, {U: V}, {U: W}, {"zz" + t: N}, {U: N, W: M}, {W: N, U: M}, {U: ""}, {W: U + "9"}):
            add("remap_uri", base, m)
        for m in ({"p" + tp: N}, {"q" + tp: N}, {"p" + tp: V}, {"p" + tp: W}, {"zz" + tp: N}, {"p" + tp: N, "r": M}, {"r": U + "9"}, {"r": N, "q" + tp: M}):
            add("rewire", base, m)
        for v in sweeps.variants(U)[:6]:
            add("remap_uri", base, {v: N})
            if v not in (V, W):
                add("remap_uri", base, {W: v})
                add("rewire", base, {"r": v})
        for v in sweeps.variants("p" + tp)[:6]:
            if v not in ("q" + tp, "r"):
                add("rewire", base, {v: N})
    # synonym lists in priority order (not alphabetical), every member promoted in turn
    for syn in (["x9", "x1", "x5"], ["x5", "x9", "x1"], ["xb", "xa"], ["x2", "x10", "x1"]):
        base = [mrec("a", "x", ["a2", "a1"], syn), mrec("b", "y", [], ["y2", "y1"])]
        for v in syn + ["x"]:
            add("remap_uri", base, {"x": v})
            add("remap_uri", base, {syn[0]: v}) if v != syn[0] else None
            add("rewire", base, {"a": v})
            add("rewire", base, {"a1": v, "b": "y1"})
    for x, y in list(sweeps.TWINS) + list(sweeps.URL_TWINS):
        X, Y = ("u" + x, "u" + y) if not x.startswith(("http", "urn")) else (x, y)
        b1 = [mrec("a", X, [], [Y]), mrec("b", "w/")]
        b2 = [mrec("a", X), mrec("b", "w/")]
        for m in ({X: "n/"}, {Y: "n/"}, {X: Y}, {"w/": "n/"}):
            add("remap_uri", b1, m)
        for m in ({"a": Y}, {"a": "n/"}, {"b": "n/"}):
            add("rewire", b1, m)
        for m in ({"w/": Y}, {Y: "n/"}, {X: "n/"}):
            add("remap_uri", b2, m)
        for m in ({"b": Y}, {"a": Y}):
            add("rewire", b2, m)
    return out


def check_delimiter(ctx=None):
    """The result writes CURIEs as the input does (an unknown or clashing entry adds nothing - not even another delimiter)."""
    from ..impl import Converter, to_record

    fails = []
    base = c11.BASES[0]
    for d in ("/", "::", "_"):
        for op, f, mappings in (("remap_uri", remap_uri_prefixes, ({}, {"x": "n"}, {"zz": "n"}, {"x1": "n"}, {"x": "y"})),
                                ("rewire", rewire, ({}, {"a": "n"}, {"zz": "n"}, {"a1": "x1"}, {"a": "y"}))):
            for mapping in mappings:
                conv = Converter([to_record(r) for r in base], delimiter=d)
                where = f"{op}(base 0 with delimiter {d!r}, {mapping})"
                try:
                    res = f(conv, mapping)
                except Exception as e:  # noqa
                    fails.append((f"{op}/raises/{type(e).__name__}", f"{where}: {type(e).__name__}"))
                    continue
                for r in base:
                    for u in r.uri_prefixes:
                        want = conv.compress(u + "#7")
                        got = res.compress(u + "#7")
                        if got != want:
                            fails.append((f"{op}/result-writes-curies-with-another-delimiter", f"{where}: compress({u + '#7'!r}) = {got!r}, the input gives {want!r}"))
                    for p_ in r.prefixes:
                        if res.expand(p_ + d + "1") is None:
                            fails.append((f"{op}/curie-prefixes-of-a-record-changed", f"{where}: expand({p_ + d + '1'!r}) is None"))
                if ctx is not None:
                    ctx.count("transitions")
                    ctx.count("delimiter_checks")
    return fails


def units(tier, seed):
    us = [{"kind": "sweep", "part": i, "of": 16} for i in range(16)] + [{"kind": "delimiter"}]
    for op in ("remap_uri", "rewire"):
        for b in range(4):
            keys = URI_NAMES[b] if op == "remap_uri" else CURIE_NAMES[b]
            for n in range(1, max_pairs(tier) + 1):
                for ch in chunks(list(it.combinations(keys, n)), 12 if n >= 3 else 2):
                    us.append({"op": op, "base": b, "n": n, "keysets": [list(k) for k in ch]})
    return us


class PlainMapping(collections.abc.Mapping):
    """A Mapping that is not a dict."""

    def __init__(self, items):
        self._items = list(items)

    def __getitem__(self, key):
        for k, v in self._items:
            if k == key:
                return v
        raise KeyError(key)

    def __iter__(self):
        return (k for k, _ in self._items)

    def __len__(self):
        return len(self._items)


MAPTYPES = ["dict", "defaultdict", "proxy", "mapping", "uriref"]


def as_mapping(pairs, maptype):
    """The remapping as the caller may hold it: any Mapping (the signature says Mapping[str, str])."""
    if maptype == "defaultdict":
        return collections.defaultdict(str, pairs)      # subscripting a missing key yields "" instead of raising
    if maptype == "proxy":
        return types.MappingProxyType(dict(pairs))       # read-only
    if maptype == "mapping":
        return PlainMapping(pairs)
    if maptype == "uriref":
        # URI prefixes held as rdflib.URIRef (a str subclass that does not compare equal to the plain string)
        import rdflib

        return {(rdflib.URIRef(k) if "/" in k or k.startswith(("u", "v", "w", "x", "y", "n", "m", "h")) else k): rdflib.URIRef(v) for k, v in pairs}
    return {k: v for k, v in pairs}


def check(op, base_idx, pairs, ctx=None, maptype="dict"):
    fails = []
    conv = c11.make_base(base_idx)
    mapping = {k: v for k, v in pairs}
    where = f"{op}(base {base_idx}, {mapping!r}" + (f" given as a {maptype}" if maptype != "dict" else "") + ")"
    f = remap_uri_prefixes if op == "remap_uri" else rewire
    first_result = None
    for rnd in range(2):
        before = model_of(conv)
        w = where + (" applied a second time to its own result" if rnd else "")
        transitive = bool(set(mapping) & set(mapping.values()))
        try:
            res = f(conv, as_mapping(pairs, maptype))
            exc = None
        except Exception as e:  # noqa
            res, exc = None, e
        if ctx is not None:
            ctx.count("transitions")
        if op == "remap_uri":
            if transitive:
                if not isinstance(exc, TransitiveError):
                    return [("remap_uri/no-TransitiveError-although-a-string-is-key-and-value", f"{w}: {'returned' if exc is None else type(exc).__name__}")]
                if ctx is not None:
                    ctx.count("transitive_rejected")
                    ctx.count("validated")
                return fails
            if exc is not None:
                return [(f"remap_uri/raises-on-non-transitive-mapping/{type(exc).__name__}", f"{w}: {type(exc).__name__}: {str(exc)[:80]}")]
        elif exc is not None:
            return [(f"rewire/raises/{type(exc).__name__}", f"{w}: {type(exc).__name__}: {str(exc)[:80]}")]
        after = model_of(res)
        try:
            fresh = Converter(copy.deepcopy(res.records))
            if indexes(fresh) != indexes(res):
                fails.append((f"{op}/result-indexes-inconsistent", f"{w}: result's lookup structures differ from a fresh converter's"))
        except Exception as e:  # noqa
            return [(f"{op}/result-violates-uniqueness", f"{w}: rebuilding from the result's records raises {type(e).__name__}")]
        if len(after.records) != len(before.records):
            return [(f"{op}/record-count-changed", f"{w}: {len(before.records)} -> {len(after.records)} records")]
        by_prefix = {r.prefix: r for r in after.records}
        all_before = before.all_uri_prefixes()
        for r in before.records:
            r2 = by_prefix.get(r.prefix)
            if r2 is None or set(r2.psyn) != set(r.psyn):
                fails.append((f"{op}/curie-prefixes-of-a-record-changed", f"{w}: record {r} became {r2}"))
                continue
            old, new = set(r.uri_prefixes), set(r2.uri_prefixes)
            mine = r.uri_prefixes if op == "remap_uri" else r.prefixes
            mapped = [v for k, v in pairs if k in mine]
            if not old <= new:
                fails.append((f"{op}/uri-prefix-lost", f"{w}: record {r.prefix!r} had {sorted(old)}, now {sorted(new)}"))
                continue
            gained = new - old
            if len(gained) > 1 or not gained <= set(mapped):
                fails.append((f"{op}/gains-more-than-the-mapped-prefix", f"{w}: record {r.prefix!r} gained {sorted(gained)}, mapped values {mapped}"))
                continue
            if not mapped:
                if r2.key() != r.key():
                    fails.append((f"{op}/unmapped-record-changed", f"{w}: record {r} became {r2}"))
            elif len(mapped) == 1:
                n = mapped[0]
                foreign = n in all_before and n not in old
                if foreign:
                    if r2.key() != r.key():
                        fails.append((f"{op}/clash-with-other-record-not-a-no-op", f"{w}: {n!r} belongs to another record, yet record {r.prefix!r} became {r2}"))
                    if ctx is not None:
                        ctx.count("clash_skipped")
                else:
                    if r2.uri_prefix != n:
                        kind = "own-synonym-not-promoted" if n in old else "unused-new-prefix-not-canonical"
                        fails.append((f"{op}/{kind}", f"{w}: record {r.prefix!r}: mapped value {n!r} should be canonical, canonical is {r2.uri_prefix!r}"))
                    elif r.uri_prefix not in new:
                        fails.append((f"{op}/replaced-canonical-not-kept-as-synonym", f"{w}: record {r.prefix!r}"))
                    if ctx is not None:
                        ctx.count("promoted_own_synonym" if n in r.usyn else "already_canonical" if n == r.uri_prefix else "new_canonical")
            else:
                if ctx is not None:
                    ctx.count("several_keys_hit_one_record")
        if op == "rewire":
            known = before.all_prefixes()
            allowed = all_before | {v for k, v in pairs if k in known}
            extra = after.all_uri_prefixes() - allowed
            if extra:
                fails.append(("rewire/unknown-prefix-added-something", f"{w}: URI prefixes {sorted(extra)} appeared through unknown CURIE prefixes"))
            if rnd == 1 and after.record_set() != before.record_set():
                fails.append(("rewire/not-idempotent", f"{w}: {sorted(map(repr, after.record_set()))} != first result {sorted(map(repr, before.record_set()))}"))
        if ctx is not None:
            ctx.digest((op, repr(base_idx), pairs, rnd, sorted((r.prefix, r.uri_prefix, sorted(r.psyn), sorted(r.usyn)) for r in after.records)))
            ctx.state(hash(canon(res)))
            ctx.count("evaluations", 4 * len(before.records))
            if rnd == 0 and after.record_set() != before.record_set():
                ctx.count("changed_something")
                ctx.distinct(hash((canon(res), op, repr(base_idx))))
        if fails:
            return fails
        if rnd == 0:
            first_input = conv
        conv = res
    # the same *input* object used for an independent second call must answer as a fresh one does
    probe = {}
    for r in model_of(first_input).records:
        key = r.uri_prefix if op == "remap_uri" else r.prefix
        for v in mapping.values():
            if key not in mapping and v not in probe.values() and key != v and v not in mapping:
                probe[key] = v
                break
    if probe:
        try:
            used = model_of(f(first_input, probe)).record_set()
        except Exception as e:  # noqa
            used = ("raised", type(e).__name__)
        try:
            fresh = model_of(f(c11.make_base(base_idx), probe)).record_set()
        except Exception as e:  # noqa
            fresh = ("raised", type(e).__name__)
        if ctx is not None:
            ctx.count("second_calls_on_used_input")
        if used != fresh:
            fails.append((f"{op}/result-depends-on-earlier-calls-with-the-same-input", f"{where}; then {op}(same input, {probe}) gives {used if isinstance(used, tuple) else sorted(map(repr, used))}, on a fresh equal input {fresh if isinstance(fresh, tuple) else sorted(map(repr, fresh))}"))
            return fails
    if ctx is not None:
        ctx.count("validated")
    return fails


def run_unit(unit, ctx):
    if unit.get("kind") == "delimiter":
        for sig, msg in check_delimiter(ctx)[:2]:
            ctx.violation("C12/" + sig, msg, {"kind": "delimiter"})
        return
    if unit.get("kind") == "sweep":
        for i, case in enumerate(sweep_cases()):
            if i % unit["of"] != unit["part"]:
                continue
            ctx.count("sweep_cases")
            for mt in MAPTYPES:
                c = dict(case, maptype=mt) if mt != "dict" else case
                for sig, msg in check(case["op"], case["base"], case["pairs"], ctx, mt)[:2]:
                    ctx.violation("C12/" + sig, msg, c)
        return
    op, b, n = unit["op"], unit["base"], unit["n"]
    values = URI_NAMES[b] + EXTRA_VALUES
    for keys in unit["keysets"]:
        for vals in it.permutations(values, n):  # injective
            base_pairs = list(zip(keys, vals))
            for perm in it.permutations(base_pairs):
                pairs = [list(p) for p in perm]
                case = {"op": op, "base": b, "pairs": pairs}
                for sig, msg in check(op, b, pairs, ctx)[:2]:
                    ctx.violation("C12/" + sig, msg, case)
        ctx.sample({"op": op, "base": b, "pairs": [[k, v] for k, v in zip(keys, values)]})


def replay(case):
    if case.get("kind") == "delimiter":
        return [("C12/" + s, m) for s, m in check_delimiter(None)]
    return [("C12/" + s, m) for s, m in check(case["op"], case["base"], case["pairs"], None, case.get("maptype", "dict"))]


def describe(tier):
    return {
        "level": "model_checking",
        "rule": f"remap_uri_prefixes and rewire x 4 base converters (one with the empty canonical prefix) x every injective dictionary of 1..{max_pairs(tier)} pairs (keys: canonical / "
        "synonym / unknown names of the relevant side; values: canonical, synonym, other records' and unknown URI prefixes) in every key order, "
        "each result fed once more into the same operation; distinct_nontrivial = distinct result states differing from the base",
        "bounds": {"pairs": max_pairs(tier), "bases": 4},
        "exhaustive": True,
        "assumptions": ["when several keys of the dictionary hit one record, any one of the mapped values may be the one applied",
                        "injective mappings only (as the property quantifies)"],
    }


def required_counters(tier):
    return ["validated", "transitive_rejected", "clash_skipped", "promoted_own_synonym", "new_canonical", "already_canonical", "several_keys_hit_one_record", "changed_something", "second_calls_on_used_input"]
