"""C05 - incrementally built converters stay consistent with their own records.

Explicit-state breadth-first search over histories of add_record / add_prefix on the real Converter.  A state is
always rebuilt by replaying its history on fresh objects; after every step the observation battery runs on the
live object; the reference model is stepped in lock-step; the reached state is compared with a converter built
from scratch from deep copies of its records (differential oracle); states are deduplicated by canonical form.
"""

from __future__ import annotations

import copy

from ..engine import chunks, run_units, Merged
from ..impl import Converter, build, canon, indexes, observe, record_set, to_record, views, rec_key
from ..refmodel import Model, mrec
from ..universe import rec_from_json, rec_to_json

PROP = "C05"
UNIT_TIMEOUT = 600

PAT = "^1$"
# operation records: plain P x U, plus overlapping shapes (CURIE side only, URI side only, both, synonym only,
# only up to case, bridging two existing records, patterns)
P = ["a", "A", "b"]
U = ["x", "X", "y"]
PLAIN = [mrec(p, u) for p in P for u in U]
SHAPED = [
    mrec("a", "x", ["b"]),            # CURIE-side synonym hitting another canonical prefix
    mrec("b", "y", [], ["x"]),        # URI-side synonym hitting another canonical URI prefix
    mrec("c", "z", ["a"], ["y"]),     # bridges two records through synonyms only
    mrec("c", "z", ["A"], ["X"]),     # matches existing ones only up to case
    mrec("c", "z"),                   # fresh
    mrec("c", "z", [], [], PAT),      # fresh, with pattern
    mrec("a", "x", [], [], "^2$"),    # same as a plain one, with a pattern (merge must keep the old pattern)
    mrec("", "w", ["d"]),             # empty default prefix
    mrec("d", "w"),                   # hits the synonym of the previous one
    mrec("e", "xy"),                  # URI prefix nested inside/around x (no match, but the trie must order them)
    mrec("b", "y", [], ["yy"]),       # an already registered pair that brings only a fresh URI-prefix synonym
    mrec("a", "a"),                   # the two sides are separate name spaces: a URI prefix may equal a CURIE prefix
]
RECS = PLAIN + SHAPED
# a second, small alphabet explored in its own BFS (keeps the main one affordable)
AUX_RECS = [
    mrec("ß", "v"),                   # case variants of different length: "ß".casefold() == "SS".casefold() == "ss"
    mrec("SS", "V"),
    mrec("ss", "v2", ["k"]),
    mrec("m", "v3", ["SS"], ["Vß"]),  # the case variant only among the synonyms
    mrec("h", "hu", [], [], "(["),    # an uncompilable pattern is legal input (patterns are not interpreted here)
    mrec("a", "x"),
    mrec("A", "hu"),
]

# a third small alphabet: names containing the separator used inside record keys, and synonym lists with repetitions
AUX2_RECS = [
    mrec("a", "b,c"),
    mrec("a,b", "c"),
    mrec("z9", "c", [], ["b,c"]),     # matches both of the above (through URI prefixes)
    mrec("z8", "q", ["a,b", "a"]),    # ... through CURIE prefixes
    mrec("n", "x", ["n1", "n1"]),     # brings the same new synonym twice
    mrec("b", "x", ["n2"]),
    mrec("n1", "y", [], ["y2", "y2"]),
    mrec("c", "z", [], [], ""),       # the empty pattern: no pattern as far as pattern_map is concerned, whichever way the record arrives
]
LOADER_INITS = [
    [mrec("A", "X"), mrec("a", "x")],                       # from_prefix_map
    [mrec("a", "x"), mrec("b", "y"), mrec("e", "xy")],      # from_prefix_map, three records
    [mrec("a", "x", [], ["X"]), mrec("b", "y", [], ["yy"])],  # from_priority_prefix_map
    [mrec("a", "x", ["b"], ["y"]), mrec("c", "z")],         # from_extended_prefix_map
]

AUX2_INITS = [
    [],
    [mrec("a", "x", ["b", "b"], ["y", "y"])],
    [mrec("a", "b,c"), mrec("a,b", "c")],
    [mrec("a", "b", ["c,d"], ["e,f"]), mrec("c", "e", ["d"], ["f"])],
    [mrec("a", "x", [], [], ""), mrec("b", "y", [], [], PAT)],
]

INITS = [
    [],
    [mrec("a", "x", ["b", "B2"], ["y", "Y2"])],   # synonym lists that are not in sorted order
    [mrec("a", "x", [], [], PAT), mrec("b", "y")],
    [mrec("A", "X"), mrec("a", "x")],
    [mrec("f", "xyzq", ["g"])],   # only a long URI prefix: later additions register shorter ones
]


def all_ops(tier, aux=False):
    ops = []
    for r in (AUX2_RECS if aux == 2 else AUX_RECS if aux else RECS):
        for cs in (True, False):
            for merge in (False, True):
                ops.append({"rec": rec_to_json(r), "cs": cs, "merge": merge, "via": "add_record"})
                if r.pattern is None and (tier == "thorough" or (merge and (cs or r.prefix in ("A", "ß", "SS")))):
                    ops.append({"rec": rec_to_json(r), "cs": cs, "merge": merge, "via": "add_prefix"})
    return ops


QUERY_PREFIXES = ["a", "A", "b", "B2", "c", "d", "e", "f", "g", "ß", "SS", "ss", "k", "h", "", "zz", "a,b", "z9", "z8", "n", "n1", "n2", "c,d"]
QUERY_URIS = ["x", "X", "y", "Y2", "z", "w", "xy", "q", "xyzq", "v", "V", "v2", "hu", "yy", "a", "b,c", "c", "b", "e", "e,f", "f"]


def queries():
    qs = ["", ":", "nodelim"]
    for p in QUERY_PREFIXES:
        qs.append(p + ":1")
    qs.append("a:1:2")
    for u in QUERY_URIS:
        qs.append(u)
        qs.append(u + "1")
    qs.append("xy1")
    qs.append("x:1")
    out = []
    for q in qs:
        if q not in out:
            out.append(q)
    return out


Q = queries()
Q_LIGHT = [q for q in Q if q in ("", "a:1", "A:1", "b:1", "c:1", ":1", "x1", "X1", "y1", "xy1", "z1", "w1", "x", "nodelim")]


def apply_op(conv, op):
    """Apply one operation to the live converter. Returns None or the exception."""
    r = rec_from_json(op["rec"])
    try:
        if op["via"] == "add_record":
            conv.add_record(to_record(r), case_sensitive=op["cs"], merge=op["merge"])
        else:
            conv.add_prefix(r.prefix, r.uri_prefix, list(r.psyn), list(r.usyn), case_sensitive=op["cs"], merge=op["merge"])
    except Exception as e:  # noqa
        return e
    return None


def check_model_answers(conv, model, fails, where):
    """Every query answers as the reference model of the current record set says."""
    for q in Q:
        exp = model.compress(q)
        got = conv.compress(q)
        if got != exp:
            fails.append(("C05/query-differs-from-model/compress", f"{where}: compress({q!r}) = {got!r}, model {exp!r}"))
        exp = model.expand(q)
        got = conv.expand(q)
        if got != exp:
            fails.append(("C05/query-differs-from-model/expand", f"{where}: expand({q!r}) = {got!r}, model {exp!r}"))
        exp = model.standardize_uri(q)
        got = conv.standardize_uri(q)
        if got != exp:
            fails.append(("C05/query-differs-from-model/standardize_uri", f"{where}: standardize_uri({q!r}) = {got!r}, model {exp!r}"))
    for p in QUERY_PREFIXES:
        exp = model.standardize_prefix(p)
        got = conv.standardize_prefix(p)
        if got != exp:
            fails.append(("C05/query-differs-from-model/standardize_prefix", f"{where}: standardize_prefix({p!r}) = {got!r}, model {exp!r}"))
        exp = model.expand_pair_all(p, "1")
        got = conv.expand_pair_all(p, "1")
        if (got is None) != (exp is None) or (got is not None and (got[0] != exp[0] or sorted(got[1:]) != exp[1])):
            fails.append(("C05/query-differs-from-model/expand_pair_all", f"{where}: expand_pair_all({p!r},'1') = {got!r}, model {exp!r}"))


def execute(case, ctx=None):
    """Replay a history on fresh objects with all checks. Returns (failures, final canon, final converter)."""
    fails = []
    init = [rec_from_json(j) for j in case["init"]]
    via = case.get("via")
    if via == "loader":
        # the initial converter comes out of a loader (the usual way to obtain one), not out of the constructor
        if all(not r.psyn and not r.usyn and not r.pattern for r in init):
            conv = Converter.from_prefix_map({r.prefix: r.uri_prefix for r in init})
        elif all(not r.psyn and not r.pattern for r in init):
            conv = Converter.from_priority_prefix_map({r.prefix: [r.uri_prefix, *r.usyn] for r in init})
        else:
            conv = Converter.from_extended_prefix_map([dict(prefix=r.prefix, uri_prefix=r.uri_prefix, prefix_synonyms=list(r.psyn), uri_prefix_synonyms=list(r.usyn), pattern=r.pattern) for r in init])
    else:
        conv = build(init)
    model = Model(list(init), ":")
    ops = case["ops"]
    same_object = {}   # via == "loader" histories also hand the *same* Record object in again when a record repeats
    observe(conv, Q_LIGHT, QUERY_PREFIXES)  # observe the initial state on the live object (plants any cache)
    for step, op in enumerate(ops):
        last = step == len(ops) - 1
        before = canon(conv)
        before_views = views(conv)
        before_ordered = [(r.prefix, r.uri_prefix, list(r.prefix_synonyms), list(r.uri_prefix_synonyms), r.pattern) for r in conv.records]
        r = rec_from_json(op["rec"])
        if via == "loader" and op["via"] == "add_record":
            key_ = repr(op["rec"])
            obj_ = same_object.get(key_)
            if obj_ is None or any(obj_ is x for x in conv.records):   # (an object the converter took over is not handed in again)
                obj_ = same_object[key_] = to_record(r)
            try:
                conv.add_record(obj_, case_sensitive=op["cs"], merge=op["merge"])
                exc = None
            except Exception as e_:  # noqa
                exc = e_
        else:
            exc = apply_op(conv, op)
        outcome, idx = model.add_record(r, case_sensitive=op["cs"], merge=op["merge"])
        where = f"step {step} {op['via']}({op['rec']}, cs={op['cs']}, merge={op['merge']})"
        conv._c05_last_rejected = exc is not None
        if ctx is not None:
            ctx.count("steps_replayed")
            if last:
                ctx.count("transitions")
                ctx.count("outcome_" + outcome)
        if exc is not None and not isinstance(exc, ValueError):
            fails.append(("C05/unexpected-exception-type", f"{where}: raised {type(exc).__name__}: {exc}"))
            break
        if (exc is not None) != (outcome == "rejected"):
            fails.append(
                (
                    "C05/accept-reject-differs-from-model",
                    f"{where}: implementation {'rejected' if exc is not None else 'accepted'}, model says {outcome}",
                )
            )
            break
        after = canon(conv)
        if exc is not None:
            if after != before or views(conv) != before_views:
                fails.append(("C05/rejected-call-changed-state", f"{where}: rejected but the converter changed"))
                break
            if [(r.prefix, r.uri_prefix, list(r.prefix_synonyms), list(r.uri_prefix_synonyms), r.pattern) for r in conv.records] != before_ordered:
                fails.append(("C05/rejected-call-reordered-records-or-synonyms", f"{where}: rejected, but the records list or a synonym list is in a different order afterwards"))
                break
        else:
            if record_set(conv) != model.record_set():
                fails.append(
                    (
                        "C05/records-differ-from-model/" + outcome,
                        f"{where}: records {sorted(map(repr, record_set(conv)))} but model ({outcome}) {sorted(map(repr, model.record_set()))}",
                    )
                )
                break
        if not (last or ctx is None):
            observe(conv, Q_LIGHT, QUERY_PREFIXES)  # intermediate observation on the live object (plants anything memoised)
            continue
        live = observe(conv, Q, QUERY_PREFIXES)  # full observation battery on the same live object after the last step
        if last or ctx is None:
            if ctx is not None:
                ctx.count("evaluations", len(live) * 2)
            # differential oracle: the state reached incrementally vs. the state built from scratch
            try:
                fresh = Converter(copy.deepcopy(conv.records))
            except Exception as e:  # noqa
                fails.append(("C05/uniqueness-lost", f"{where}: rebuilding from the current records raises {type(e).__name__}"))
                break
            if indexes(fresh) != indexes(conv):
                names = ["prefix_map", "synonym_to_prefix", "reverse_prefix_map", "pattern_map", "trie"]
                diff = [n for n, a, b in zip(names, indexes(conv), indexes(fresh)) if a != b]
                fails.append(("C05/index-drift/" + "+".join(diff), f"{where}: lookup structures {diff} differ from a fresh converter's"))
            if observe(fresh, Q, QUERY_PREFIXES) != live:
                f2 = observe(fresh, Q, QUERY_PREFIXES)
                bad = [Q[i] if i < len(Q) else QUERY_PREFIXES[i - len(Q)] for i, (a, b) in enumerate(zip(live, f2)) if a != b]
                fails.append(("C05/answers-differ-from-fresh-converter", f"{where}: queries {bad[:4]} answer differently on a fresh converter"))
            if views(fresh) != views(conv):
                fails.append(("C05/views-differ-from-fresh-converter", f"{where}: get_prefixes/get_uri_prefixes/bimap differ"))
            check_model_answers(conv, model, fails, where)
            if exc is None:
                # every prefix / URI prefix of the new record resolves to one record
                owners = {conv.standardize_prefix(p) for p in r.prefixes}
                uowners = {(conv.parse_uri(u, return_none=True) or (None, None))[0] for u in r.uri_prefixes}
                # (parse_uri of exactly a URI prefix: the longest registered prefix of u is u itself)
                if len(owners | uowners) != 1 or None in owners | uowners:
                    fails.append(("C05/new-record-not-resolving-to-one-record", f"{where}: owners {owners} / {uowners}"))
        if fails:
            break
    return fails, canon(conv), conv


def check_collections():
    """add_prefix takes its synonyms as any Collection[str]: the kind of collection does not matter."""
    import collections as _c

    fails = []
    kinds = {"tuple": tuple, "set": set, "frozenset": frozenset, "deque": _c.deque, "dict-keys": lambda xs: dict.fromkeys(xs).keys()}
    try:
        import numpy as _np
        import pandas as _pd

        kinds.update({"numpy.ndarray": lambda xs: _np.array(list(xs), dtype=object), "pandas.Series": lambda xs: _pd.Series(list(xs), dtype=object),
                      "pandas.Index": lambda xs: _pd.Index(list(xs), dtype=object)})
    except ImportError:
        pass
    for psyn, usyn in ((["gocc", "gomf"], ["http://g2/"]), ([""], ["http://g2/", "http://g3/"]), ([], []), (["gomf"], [""])):
        ref = Converter([])
        ref.add_prefix("go", "http://go/", prefix_synonyms=list(psyn), uri_prefix_synonyms=list(usyn))
        for name, make in kinds.items():
            conv = Converter([])
            try:
                conv.add_prefix("go", "http://go/", prefix_synonyms=make(psyn), uri_prefix_synonyms=make(usyn))
            except Exception as e:  # noqa
                fails.append((f"C05/add_prefix-depends-on-the-kind-of-collection/{name}", f"add_prefix('go', 'http://go/', prefix_synonyms=<{name} of {psyn}>, uri_prefix_synonyms=<{name} of {usyn}>) raised {type(e).__name__}: {str(e)[:80]}"))
                continue
            if canon(conv) != canon(ref):
                fails.append((f"C05/add_prefix-depends-on-the-kind-of-collection/{name}", f"synonyms {psyn} / {usyn} given as {name}: records {sorted(map(repr, record_set(conv)))}, given as lists {sorted(map(repr, record_set(ref)))}"))
    return fails


def check_relatives(case):
    """Shallow copies share their state: after one of the two objects executed the operation, BOTH answer every query as a
    converter freshly built from their own current records does (deep copies and pickles are covered by the joint universe)."""
    import copy as _copy

    fails = []
    init = [rec_from_json(j) for j in case["init"]]
    op = case["ops"][-1]
    for who in ("original", "copy"):
        base = build(init)
        observe(base, Q_LIGHT, QUERY_PREFIXES)
        sh = _copy.copy(base)
        apply_op(base if who == "original" else sh, op)
        for name, obj in (("original", base), ("shallow copy", sh)):
            try:
                fresh = Converter(copy.deepcopy(obj.records))
            except Exception as e:  # noqa
                fails.append(("C05/uniqueness-lost", f"{op['via']}({op['rec']}) on the {who}: rebuilding the {name} from its records raises {type(e).__name__}"))
                continue
            if observe(fresh, Q, QUERY_PREFIXES) != observe(obj, Q, QUERY_PREFIXES) or views(fresh) != views(obj):
                fails.append(("C05/answers-differ-from-fresh-converter/relative", f"init {case['init']}: after {op['via']}({op['rec']}, cs={op['cs']}, merge={op['merge']}) was executed on the {who}, the {name} answers differently from a converter freshly built from its own records"))
    return fails


def replay(case):
    if case.get("collections"):
        return check_collections()
    if case.get("relatives"):
        return check_relatives(case)
    if "tla_edge" in case:
        import sys

        from ..impl import VERIF

        sys.path.insert(0, VERIF)
        from models import conform

        msg = conform.check_edge(case["tla_edge"])
        return [("C05/implementation-disagrees-with-tla-model-edge/" + case["tla_edge"]["kind"], msg)] if msg else []
    if "tla_states" in case:
        from ..engine import Merged

        t = Merged()
        tla_phase("quick" if case["tla_states"] == 2 else "thorough", t)
        return [(v["signature"], v["message"]) for v in t.violations]
    fails, _, _ = execute(case, None)
    return fails


def run_unit(unit, ctx):
    """unit = {"ops": [...all ops...], "frontier": [history, ...]}: expand every frontier state by every op."""
    ops = unit["ops"]
    new_states = []
    for hist in unit["frontier"]:
        for k, op in enumerate(ops):
            case = {"init": hist["init"], "ops": hist["ops"] + [op]}
            if hist.get("via"):
                case["via"] = hist["via"]
            if not hist["ops"] and not hist.get("via") and k == 0 and not hist["init"]:
                ctx.count("collection_checks")
                for sig, msg in check_collections()[:2]:
                    ctx.violation(sig, msg, {"collections": True})
            if not hist["ops"] and not hist.get("via"):
                ctx.count("relative_checks")
                for sig, msg in check_relatives(case)[:1]:
                    ctx.violation(sig, msg, dict(case, relatives=True))
            fails, cn, conv = execute(case, ctx)
            if fails:
                for sig, msg in fails[:2]:
                    ctx.violation(sig, msg, case)
                continue
            ctx.count("validated")
            h = hash(cn)
            if hist.get("via") and getattr(conv, "_c05_last_rejected", False):
                # in the loader phase a state also remembers the call that was just rejected: a retry of the same Record object
                # with other flags is a different future if anything about the rejected call were kept
                h = hash((cn, repr(op)))
            ctx.state(h)
            new_states.append((h, case))
            # anti-vacuity bookkeeping
            if len(conv.records) >= 2:
                ctx.distinct(h)
    ctx.payload = new_states  # candidate successor states, merged by the parent in unit order


def explore(tier, seed, procs=None):
    total = Merged()
    total.levels = []
    samples = []
    for phase, (ops, inits, depth) in enumerate(((all_ops(tier), INITS, {"quick": 3, "thorough": 4}[tier]), (all_ops("thorough", aux=True), [[]], {"quick": 3, "thorough": 4}[tier]),
                                                 (all_ops("thorough", aux=2), AUX2_INITS, {"quick": 2, "thorough": 3}[tier]),
                                                 # loader-built initial converters, repeated records handed in as the same object
                                                 ([o for o in all_ops("quick") if o["via"] == "add_record"], LOADER_INITS, {"quick": 2, "thorough": 3}[tier]))):
        bfs(total, samples, ops, inits, depth, seed, procs, phase, via="loader" if phase == 3 else None)
        if total.violations or total.errors:
            break
    if not total.violations and not total.errors:
        tla_phase(tier, total)
    total.samples = samples[:4]
    total.counters["depth_completed"] = min((l["depth"] for l in total.levels if l["last"]), default=0)
    return total


def bfs(total, samples, ops, inits, depth, seed, procs, phase, via=None):
    seen = set()
    frontier = []
    for init in inits:
        case = {"init": [rec_to_json(r) for r in init], "ops": []}
        if via:
            case["via"] = via
        _, cn, _ = execute(case, None)
        if hash(cn) not in seen:
            seen.add(hash(cn))
            frontier.append(case)
    total.states |= seen
    levels = total.levels
    for level in range(1, depth + 1):
        units = [{"ops": ops, "frontier": ch} for ch in chunks(frontier, 64 if len(frontier) >= 64 else max(1, len(frontier)))]
        from ..engine import run_units as _ru

        m = _ru(__name__, units, timeout=UNIT_TIMEOUT, procs=procs, seed=seed)
        total.units += m.units
        total.counters.update(m.counters)
        total.nontrivial |= m.nontrivial
        total.violations.extend(m.violations)
        total.nviol += m.nviol
        total.errors.extend(m.errors)
        nxt = []
        # results arrive sorted by unit index -> deterministic choice of the representative history
        for s in m.payloads:
            for h, case in s or ():
                if h not in seen:
                    seen.add(h)
                    nxt.append(case)
        total.states |= seen
        levels.append({"phase": phase, "depth": level, "frontier_in": len(frontier), "new_states": len(nxt), "last": level == depth})
        if nxt:
            samples.append(nxt[0])
        frontier = nxt
        if total.violations or total.errors:
            break
    return


TLA_DEPTH = {"quick": 2, "thorough": 3}


def tla_phase(tier, total):
    """Second, independent model: TLC explores models/AddRecord.tla over the same (pattern-free) alphabet; every edge of
    its dumped state graph is replayed against the real Converter, and its reachable converters must equal ours."""
    import sys, os

    from ..impl import VERIF

    sys.path.insert(0, VERIF)
    from models import conform

    try:
        rep = conform.run(TLA_DEPTH[tier], workers=8)
    except AssertionError as e:
        total.errors.append((-1, f"TLC phase failed: {e}"))
        return
    total.counters["tlc_distinct_states"] = rep["tlc_distinct_states"]
    total.counters["tlc_edges"] = rep["tlc_edges"]
    total.counters["tlc_edges_validated_against_impl"] = rep["edges_validated_against_impl"]
    total.counters["tlc_abstract_converters"] = rep["tlc_abstract_converters"]
    total.counters["validated"] += rep["edges_validated_against_impl"]
    for msg, edge in rep["disagreements"]:
        total.violations.append({"signature": "C05/implementation-disagrees-with-tla-model-edge/" + edge["kind"], "message": msg, "case": {"tla_edge": edge}, "unit": None})
        total.nviol += 1
    if not rep["disagreements"] and not rep["state_sets_equal"]:
        total.violations.append({"signature": "C05/reachable-converters-differ-from-tla-model", "message": f"{rep['only_tlc']} converters only reachable in the TLA+ model, {rep['only_python']} only by the implementation", "case": {"tla_states": TLA_DEPTH[tier]}, "unit": None})
        total.nviol += 1


def describe(tier):
    depth = {"quick": 3, "thorough": 4}[tier]
    return {
        "level": "model_checking",
        "rule": "explicit-state BFS over histories of add_record/add_prefix on the real Converter from 5 initial "
        "converters; every frontier state x every operation is executed by replaying the history on fresh objects; "
        "states deduplicated by canonical form (delimiter, record set, five indexes); non-trivial = reached states "
        "with >= 2 records; lock-step reference model + differential comparison with a converter rebuilt from scratch",
        "model_binding": "primary: the explorer drives the real Converter and steps the Python reference model in lock-step on every transition; "
        "secondary: TLC explores models/AddRecord.tla (TLA+) over the same pattern-free operation alphabet to depth "
        f"{TLA_DEPTH[tier]}, its complete state graph is dumped, EVERY edge is replayed against the real Converter (counter "
        "tlc_edges_validated_against_impl) and its set of reachable converters must equal the one reached through the implementation; "
        "TLC also checks the uniqueness invariant on the model",
        "bounds": {"depth": depth, "tla_depth": TLA_DEPTH[tier], "operations": len(all_ops(tier)), "initial_states": len(INITS), "queries": len(Q) + len(QUERY_PREFIXES)},
        "exhaustive": True,
        "assumptions": [
            "operation alphabet: records over prefixes {a,A,b,c,d,e,''} and URI prefixes {x,X,y,z,w,xy}",
            "the five lookup structures are read through their public attribute names",
        ],
    }


def required_counters(tier):
    return ["transitions", "validated", "outcome_merged", "outcome_rejected", "outcome_appended", "tlc_edges_validated_against_impl", "tlc_abstract_converters"]
