"""C11 - CURIE-prefix remapping renames records without losing information.

Every remapping dictionary of <= 3 (quick) / 4 (thorough) pairs over the names {3 canonical prefixes, 2 synonyms,
2 unknown strings}, in every key order, is applied to base converters (and once more to its own result) on the real
code.  Oracle: the documented rejection conditions evaluated on the dictionary, the no-loss postconditions of the
statement, and - for non-transitive dictionaries, where the statement fixes the result completely - a reference result.
"""

from __future__ import annotations

import copy
import itertools as it

from ..engine import chunks
from ..impl import Converter, Record, canon, curies, indexes, model_of, rec_key, record_set, to_record
from ..refmodel import Model, mrec
from ..universe import recs_from_json, recs_to_json

PROP = "C11"
HASHSEEDS = (1, 2)  # thorough tier: the sweep is repeated under these PYTHONHASHSEED values (sets are iterated inside the code under test)
from curies import remap_curie_prefixes  # noqa: E402
from curies import reconciliation as R  # noqa: E402

DOCUMENTED = ("DuplicateKeys", "DuplicateValues", "InconsistentMapping", "CycleDetected")

BASES = [
    [mrec("a", "x", ["a1"], ["x1"]), mrec("b", "y", ["b1"]), mrec("c", "z")],
    [mrec("a", "x", ["a1", "a2"]), mrec("b", "y", ["b1"], ["y1", "y2"]), mrec("c", "z", [], [], "^1$")],
    "incremental",
    [mrec("", "d", ["dd"], ["d1"]), mrec("b", "y", ["b1"]), mrec("c", "z")],   # the empty (default) prefix is a legal canonical prefix
    [mrec("a", "x", ["a1", "b1"], ["x1"]), mrec("b", "y"), mrec("c", "z")],          # vocabulary of base 0, grouped differently
    [mrec(f"p{i}", f"u{i}", [f"s{i}"]) for i in range(9)],                           # many records: dictionaries touching up to 9 groups ("wide" units only)
]
WIDE = 5
SHADOW = {0: 4}   # every dictionary applied to base 0 is applied to base 4 right afterwards in the same process
NAMES = ["a", "b", "c", "a1", "b1", "n", "m"]
NAMES_BY_BASE = {3: ["", "b", "c", "dd", "b1", "n", "m"]}


def names(b):
    return NAMES_BY_BASE.get(b, NAMES)


def make_base(k):
    if isinstance(k, list):   # an explicit record list (sweep cases)
        from ..universe import recs_from_json

        return Converter([to_record(r) for r in recs_from_json(k)])
    if BASES[k] == "incremental":
        conv = Converter([])
        conv.add_prefix("c", "z")
        conv.add_record(Record(prefix="a", uri_prefix="x"))   # synonym fields never set explicitly; they arrive through merges
        conv.add_record(Record(prefix="a", uri_prefix="x1"), merge=True)
        conv.add_record(Record(prefix="a1", uri_prefix="x"), merge=True)
        conv.add_prefix("b", "y")
        conv.add_record(Record(prefix="b1", uri_prefix="y"), merge=True)
        return conv
    return Converter([to_record(r) for r in BASES[k]])


def max_pairs(tier):
    return 3 if tier == "quick" else 4


def dictionaries(n):
    """All dictionaries with exactly n pairs over NAMES (distinct keys), in every key order, as lists of pairs."""
    for keys in it.combinations(NAMES, n):
        for values in it.product(NAMES, repeat=n):
            pairs = list(zip(keys, values))
            for perm in it.permutations(pairs):
                yield [list(p) for p in perm]


def check_long_chain(ctx=None):
    """A long, only partially applicable chain is either applied or rejected with a documented error - nothing else."""
    fails = []
    for n, first in ((1500, "head-first"), (1500, "tail-first")):
        pairs = [[f"k{i}", f"k{i + 1}"] for i in range(n)]
        pairs[0][0] = "a"          # the head of the chain is a known prefix, every other link is unknown
        if first == "tail-first":
            pairs.reverse()
        conv = make_base(0)
        try:
            res = remap_curie_prefixes(conv, {k: v for k, v in pairs})
        except Exception as e:  # noqa
            if type(e).__name__ not in DOCUMENTED:
                fails.append((f"undocumented-exception/{type(e).__name__}", f"chain of {n} links ({first}): {type(e).__name__}"))
            continue
        got = {r.uri_prefix: r.prefix for r in res.records}
        if got.get("x") != "k1" or set(model_of(conv).all_prefixes()) - set(res.prefix_map):
            fails.append(("applicable-pair-not-applied", f"chain of {n} links ({first}): record a is named {got.get('x')!r}"))
        if ctx is not None:
            ctx.count("long_chains")
            ctx.count("transitions")
    return fails


def wide_cases():
    """Dictionaries touching 1..9 groups of the 9-record base: all applicable, and with one duplicate key / duplicate value /
    inconsistent pair planted in group j; each in three key orders."""
    out = []
    for k in range(1, 10):
        good = [[f"p{i}", f"n{i}"] for i in range(k)]
        variants = [good]
        for j in range(k):
            variants.append(good + [[f"s{j}", f"m{j}"]])                          # two keys of one record
            variants.append(good[:j] + [[f"s{j}", f"n{j}"]] + good[j + 1:])      # synonym as key
            if j + 1 < k:
                variants.append(good[:j] + [[f"p{j}", f"n{j + 1}"]] + good[j + 1:])   # two records to one new name
            variants.append(good[:j] + [[f"p{j}", f"s{(j + 1) % 9}"]] + good[j + 1:])  # onto a name owned by another record
        for v in variants:
            for order in (v, v[::-1], v[len(v) // 2:] + v[: len(v) // 2]):
                out.append({"base": WIDE, "pairs": [list(p) for p in order], "twice": True})
    return out


def two_chain_cases():
    """Two disjoint two-link chains in one dictionary (k2 -> k1 -> new), every choice of links among 5 known names of base 0 (3 records) and of the 9-record base,
    every key order."""
    out = []
    for b, known in ((0, ["a", "b", "c", "a1", "b1"]), (WIDE, ["p0", "p1", "p2", "s3", "p4"])):
        for k1, k2, l1, l2 in it.permutations(known, 4):
            base = [[k1, "n"], [k2, k1], [l1, "m"], [l2, l1]]
            for perm in it.permutations(base):
                out.append({"base": b, "pairs": [list(p) for p in perm], "twice": True})
    return out


def check_delimiter(ctx=None):
    """The result writes CURIEs as the input does: every URI still compresses to the same identifier under the record's
    possibly new name - joined by the input's delimiter."""
    fails = []
    for d in ("/", "::", "_"):
        for mapping in ({}, {"a": "n"}, {"zz": "n"}, {"a1": "n"}, {"a": "n", "b": "a"}, {"a": "b1"}):
            conv = Converter([to_record(r) for r in BASES[0]], delimiter=d)
            where = f"remap_curie_prefixes(base 0 with delimiter {d!r}, {mapping})"
            try:
                res = remap_curie_prefixes(conv, mapping)
            except Exception as e:  # noqa
                if type(e).__name__ not in DOCUMENTED:
                    fails.append((f"undocumented-exception/{type(e).__name__}", f"{where}: {type(e).__name__}"))
                continue
            by_uri = {r.uri_prefix: r.prefix for r in res.records}
            for r in BASES[0]:
                want = by_uri.get(r.uri_prefix, "?") + d + "#7"
                got = res.compress(r.uri_prefix + "#7")
                if got != want:
                    fails.append(("result-writes-curies-with-another-delimiter", f"{where}: compress({r.uri_prefix + '#7'!r}) = {got!r}, expected {want!r}"))
                for p_ in r.prefixes:
                    if res.expand(p_ + d + "1") is None:
                        fails.append(("prefix-lost/plain-remapping", f"{where}: expand({p_ + d + '1'!r}) is None although {p_!r} was known before"))
            if ctx is not None:
                ctx.count("transitions")
                ctx.count("delimiter_checks")
    return fails


def units(tier, seed):
    us = [{"kind": "long-chain"}, {"kind": "delimiter"}]
    us += [{"kind": "cases", "gen": "wide", "part": i, "of": 4} for i in range(4)]
    us += [{"kind": "cases", "gen": "two-chain", "part": i, "of": 8} for i in range(8)]
    for b in range(len(BASES)):
        if b in SHADOW.values() or b == WIDE:
            continue
        for n in range(1, max_pairs(tier) + 1):
            keysets = list(it.combinations(names(b), n))
            for ch in chunks(keysets, 35 if n >= 3 else 4):
                us.append({"base": b, "n": n, "keysets": [list(k) for k in ch]})
    return us


# ---- reference ---------------------------------------------------------------------------------------------------
def rejection_reasons(model, pairs):
    """Which documented rejection conditions the dictionary exhibits with respect to the converter."""
    own = lambda s: (model.owner(s) or (None,))[0]  # canonical prefix of the owner, or None  # noqa
    reasons = set()
    for (k1, v1), (k2, v2) in it.combinations(pairs, 2):
        if own(k1) is not None and own(k1) == own(k2):
            reasons.add("DuplicateKeys")
        if (own(v1) is not None and own(v1) == own(v2)) or v1 == v2:
            reasons.add("DuplicateValues")
    names = {}
    for k, v in pairs:
        if own(k) is not None:
            names.setdefault(own(k), set()).add(k)
        if own(v) is not None and own(k) != own(v):
            names.setdefault(own(v), set()).add(v)
    if any(len(v) > 1 for v in names.values()):
        reasons.add("InconsistentMapping")
    d = dict(pairs)
    while d:
        terminal = set(d.values()) - set(d)
        if not terminal:
            reasons.add("CycleDetected")
            break
        d = {k: v for k, v in d.items() if v not in terminal}
    return reasons


def reference_nontransitive(model, pairs):
    """Result fixed by the statement when no key is also a value: applicable pairs rename, the others are skipped."""
    recs = list(model.records)
    for k, v in pairs:  # pairs are applied one after the other (sorted by key): a name taken by an earlier pair is taken
        r = model.owner(k)
        if r is None:
            continue
        i = next(i for i, x in enumerate(recs) if x.uri_prefix == r.uri_prefix)
        cur = recs[i]
        tgt = Model(recs, ":").owner(v)
        if tgt is not None and tgt.uri_prefix != cur.uri_prefix:
            continue
        syn = (set(cur.psyn) | {cur.prefix}) - {v}
        recs[i] = mrec(v, cur.uri_prefix, sorted(syn), cur.usyn, cur.pattern)
    return Model(recs, ":")


def check(base_idx, pairs, twice=False, ctx=None):
    fails = []
    conv = make_base(base_idx)
    remapping = {k: v for k, v in pairs}
    where = f"remap_curie_prefixes(base {base_idx}, {remapping})"
    res = None
    rounds = 2 if twice else 1
    for rnd in range(rounds):
        before = model_of(conv)
        reasons = rejection_reasons(before, pairs)
        try:
            res = remap_curie_prefixes(conv, remapping)
            exc = None
        except Exception as e:  # noqa
            res, exc = None, e
        if ctx is not None:
            ctx.count("transitions")
        w = where + (" applied a second time to its own result" if rnd else "")
        if exc is not None:
            name = type(exc).__name__
            if name not in DOCUMENTED or type(exc).__module__ != "curies.reconciliation":
                return [(f"undocumented-exception/{name}", f"{w}: raised {type(exc).__module__}.{name}: {str(exc)[:100]}")]
            if not reasons:
                return [(f"rejected-without-documented-reason/{name}", f"{w}: raised {name} but the dictionary has no duplicate keys/values, inconsistency or cycle")]
            if ctx is not None:
                ctx.count("rejected")
                ctx.count("rejected_" + name)
                ctx.digest((base_idx, pairs, rnd, "rejected"))
            return fails
        if ctx is not None:
            ctx.count("accepted")
            if reasons:
                ctx.count("accepted_although_reference_sees_" + "+".join(sorted(reasons)))
        # ---- postconditions ------------------------------------------------------------------------------------
        after = model_of(res)
        if len(after.records) != len(before.records):
            fails.append(("record-count-changed", f"{w}: {len(before.records)} records before, {len(after.records)} after"))
            return fails
        try:
            fresh = Converter(copy.deepcopy(res.records))
            if indexes(fresh) != indexes(res):
                fails.append(("result-indexes-inconsistent", f"{w}: result's lookup structures differ from a fresh converter's"))
        except Exception as e:  # noqa
            fails.append(("result-violates-uniqueness", f"{w}: rebuilding from the result's records raises {type(e).__name__}"))
            return fails
        by_uri = {r.uri_prefix: r for r in after.records}
        for r in before.records:
            r2 = by_uri.get(r.uri_prefix)
            if r2 is None or set(r2.usyn) != set(r.usyn):
                fails.append(("uri-prefixes-of-a-record-changed", f"{w}: record {r} became {r2}"))
                continue
            for u in r.uri_prefixes:
                got = res.compress(u + "#7")  # '#7' extends no registered URI prefix into another one
                if got != r2.prefix + ":#7":
                    fails.append(("uri-no-longer-compresses-under-its-record", f"{w}: compress({u + '#7'!r}) = {got!r}, record is now named {r2.prefix!r}"))
        lost = before.all_prefixes() - after.all_prefixes()
        if lost:
            transitive = bool(set(remapping) & set(remapping.values()))
            fails.append((f"prefix-lost/{'transitive' if transitive else 'plain'}-remapping", f"{w}: prefixes {sorted(lost)} were known before and are unknown afterwards"))
        targets = [v for _, v in pairs]
        for (k1, v1), (k2, v2) in it.combinations(pairs, 2):
            r1, r2 = before.owner(k1), before.owner(k2)
            if v1 == v2 and r1 is not None and r2 is not None and r1.uri_prefix != r2.uri_prefix and before.owner(v1) is None:
                # two applicable pairs onto one unused name cannot both be honoured: the only conforming outcome is the documented rejection
                fails.append(("accepted-although-two-applicable-pairs-compete-for-one-new-name", f"{w}: {k1!r}->{v1!r} and {k2!r}->{v2!r} are both applicable and {v1!r} was unused; no DuplicateValues was raised and only one record can be named {v1!r}"))
        for k, v in pairs:
            r = before.owner(k)
            if r is None or before.owner(v) is not None:
                continue
            if targets.count(v) > 1:
                continue  # ambiguous: several pairs compete for the same new name
            # (v may itself be a key: it is unknown, so the pair v->w is inapplicable and does not release anything)
            r2 = by_uri.get(r.uri_prefix)
            if r2 is not None and r2.prefix != v:
                fails.append(("applicable-pair-not-applied", f"{w}: {k!r}->{v!r} is applicable and {v!r} was unused, but the record is named {r2.prefix!r}"))
        for k, v in pairs:
            # hand-over: v is the key of an applicable pair v->w that renames another record to an unused name w,
            # so v is free and k's record takes it as its canonical prefix
            r, rv_owner = before.owner(k), before.owner(v)
            if r is None or rv_owner is None or rv_owner.uri_prefix == r.uri_prefix or v not in remapping:
                continue
            wnew = remapping[v]
            if before.owner(wnew) is not None or wnew in remapping or targets.count(wnew) > 1 or targets.count(v) > 1:
                continue
            r2, o2 = by_uri.get(r.uri_prefix), by_uri.get(rv_owner.uri_prefix)
            if r2 is not None and o2 is not None and (r2.prefix != v or o2.prefix != wnew):
                fails.append(("handed-over-name-not-taken", f"{w}: {v!r}->{wnew!r} frees {v!r} and {k!r}->{v!r} claims it, but the records are named {o2.prefix!r} and {r2.prefix!r}"))
        if not (set(remapping) & set(remapping.values())) and not reasons:
            exp = reference_nontransitive(before, sorted(pairs))
            if after.record_set() != exp.record_set():
                fails.append(("non-transitive-result-differs-from-statement", f"{w}: records {sorted(map(repr, after.record_set()))}, expected {sorted(map(repr, exp.record_set()))}"))
        if rnd == 0:
            # the statement speaks of "old's record": the renaming may depend on which records the keys name, not on
            # whether a key is written as the canonical prefix or as a synonym of that record
            canon_pairs = [[(before.owner(k) or (k,))[0], v] for k, v in pairs]
            distinct_targets = len({v for _, v in pairs}) == len(pairs)  # pairs competing for one new name are served in key order
            if distinct_targets and canon_pairs != [list(p) for p in pairs] and not rejection_reasons(before, canon_pairs):
                try:
                    alt = remap_curie_prefixes(make_base(base_idx), {k: v for k, v in canon_pairs})
                except Exception:  # noqa
                    alt = None
                if ctx is not None:
                    ctx.count("key_form_comparisons")
                if alt is not None and dict(alt.bimap) != dict(res.bimap):
                    fails.append(("renaming-depends-on-key-being-synonym-or-canonical", f"{w}: canonical names {dict(res.bimap)}, but with the keys written canonically {dict(canon_pairs)} -> {dict(alt.bimap)}"))
        if ctx is not None:
            ctx.digest((base_idx, pairs, rnd, sorted((r.prefix, r.uri_prefix, sorted(r.psyn), sorted(r.usyn)) for r in after.records)))
            ctx.state(hash(canon(res)))
            ctx.count("evaluations", 6)
            if after.record_set() != before.record_set():
                ctx.count("accepted_and_changed_something")
                ctx.distinct(hash((canon(res), base_idx)))
            if set(remapping) & set(remapping.values()):
                ctx.count("accepted_transitive")
        if fails:
            return fails
        if rnd == 0:
            first_input = conv
        conv = res
    # the same *input* object used for an independent second call must answer as a fresh equal one does (the first call may
    # have introduced or handed over names; none of that belongs to the input)
    if res is not None and base_idx != WIDE:
        known = sorted(model_of(first_input).all_prefixes())
        news = [v for v in remapping.values() if v not in known]
        probes = []
        if news and len(known) >= 2:
            probes.append({known[-1]: news[0]})          # another record asks for the name the first call gave away
            probes.append({news[0]: "zq"})               # a name the first call introduced is unknown to the input
        probes.append({k: "zq" for k in list(remapping)[:1]})
        for probe in probes:
            try:
                used = model_of(remap_curie_prefixes(first_input, probe)).record_set()
            except Exception as e:  # noqa
                used = ("raised", type(e).__name__)
            try:
                fresh = model_of(remap_curie_prefixes(make_base(base_idx), probe)).record_set()
            except Exception as e:  # noqa
                fresh = ("raised", type(e).__name__)
            if ctx is not None:
                ctx.count("second_calls_on_used_input")
            if used != fresh:
                fails.append(("result-depends-on-earlier-calls-with-the-same-input", f"{where}; then remap_curie_prefixes(same input, {probe}) gives {used if isinstance(used, tuple) else sorted(map(repr, used))}, on a fresh equal input {fresh if isinstance(fresh, tuple) else sorted(map(repr, fresh))}"))
                return fails
    if ctx is not None:
        ctx.count("validated")
    return fails


def run_unit(unit, ctx):
    if unit.get("kind") == "long-chain":
        for sig, msg in check_long_chain(ctx):
            ctx.violation("C11/" + sig, msg, {"kind": "long-chain"})
        return
    if unit.get("kind") == "delimiter":
        for sig, msg in check_delimiter(ctx)[:2]:
            ctx.violation("C11/" + sig, msg, {"kind": "delimiter"})
        return
    if unit.get("kind") == "cases":
        cases = wide_cases() if unit["gen"] == "wide" else two_chain_cases()
        for i, case in enumerate(cases):
            if i % unit["of"] != unit["part"]:
                continue
            ctx.count(unit["gen"].replace("-", "_") + "_cases")
            for sig, msg in check(case["base"], case["pairs"], True, ctx)[:2]:
                ctx.violation("C11/" + sig, msg, case)
        return
    n = unit["n"]
    for keys in unit["keysets"]:
        for values in it.product(names(unit["base"]), repeat=n):
            base_pairs = list(zip(keys, values))
            for perm in it.permutations(base_pairs):
                pairs = [list(p) for p in perm]
                case = {"base": unit["base"], "pairs": pairs, "twice": True}
                for sig, msg in check(unit["base"], pairs, True, ctx)[:2]:
                    ctx.violation("C11/" + sig, msg, case)
                if unit["base"] in SHADOW:
                    b2 = SHADOW[unit["base"]]
                    for sig, msg in check(b2, pairs, False, ctx)[:2]:
                        ctx.violation("C11/" + sig, msg, {"base": b2, "pairs": pairs, "twice": False, "after_base": unit["base"]})
        ctx.sample({"base": unit["base"], "pairs": [[k, "n"] for k in keys], "twice": True})


def replay(case):
    if case.get("kind") == "long-chain":
        return [("C11/" + s, m) for s, m in check_long_chain(None)]
    if case.get("kind") == "delimiter":
        return [("C11/" + s, m) for s, m in check_delimiter(None)]
    if "after_base" in case:   # the same dictionary was applied to another converter with the same vocabulary just before
        check(case["after_base"], case["pairs"], True, None)
    return [("C11/" + s, m) for s, m in check(case["base"], case["pairs"], case.get("twice", False), None)]


def describe(tier):
    return {
        "level": "model_checking",
        "rule": f"5 base converters (one only as a shadow: same vocabulary as base 0 but grouped differently, run right after it for every dictionary; 3 records with synonyms on both sides / more synonyms and a pattern / built incrementally by merges / one whose canonical prefix is the empty string) x every "
        f"dictionary of 1..{max_pairs(tier)} pairs with distinct keys over the 7 names {NAMES} (canonical x3, synonyms x2, unknown x2) in every key "
        "order, applied once and once more to its own result; distinct_nontrivial = distinct result states that differ from the base",
        "bounds": {"pairs": max_pairs(tier), "names": len(NAMES), "bases": len(BASES)},
        "exhaustive": True,
        "assumptions": [
            "a rejection is accepted iff it is one of the four documented classes and the dictionary exhibits at least one documented condition; "
            "not rejecting is never a violation by itself - the postconditions then decide",
            "the 'becomes canonical' clause is only asserted for pairs whose new name is targeted by no other pair",
        ],
    }


def required_counters(tier):
    return ["accepted", "rejected", "accepted_and_changed_something", "accepted_transitive", "key_form_comparisons", "validated"] + ["rejected_" + d for d in DOCUMENTED]
