"""C13 - every loader yields exactly the converter its input format denotes.

All small prefix maps, priority maps, reverse maps, JSON-LD contexts and rdflib bindings, in every dictionary
insertion order, are loaded on the real code as object and (one order each) from a JSON file given as str and as Path;
the result is compared with the denotation written directly in the reference model.  upgrade_prefix_map is run on every
(also non-injective) map in every order.
"""

from __future__ import annotations

import itertools as it
import json
import os
import shutil
import tempfile
from pathlib import Path

from ..engine import chunks
from ..impl import Converter, canon, curies, model_of, record_set
from ..refmodel import Model, mrec

PROP = "C13"
P4 = ["a", "A", "b", "B"]
U4 = ["x", "xy", "X", "y"]
_TMP = None


def tmpdir():
    global _TMP
    if _TMP is None or not os.path.isdir(_TMP):
        root = "/dev/shm" if os.path.isdir("/dev/shm") else None
        _TMP = tempfile.mkdtemp(prefix="c13.", dir=root)
        import atexit

        atexit.register(shutil.rmtree, _TMP, True)
    return _TMP


def partial_maps(keys, values):
    """All partial functions keys -> values as lists of items (one canonical order)."""
    for combo in it.product(*[[None] + list(values) for _ in keys]):
        yield [(k, v) for k, v in zip(keys, combo) if v is not None]


def same_converter(a, b):
    return canon(a) == canon(b)


def check_kwargs(loader_fn, data, model, fails, where, loader):
    """Keyword arguments of every loader reach the constructor (delimiter, strict)."""
    for d in ("/", "::"):
        try:
            c = loader_fn(data, delimiter=d)
        except Exception as e:  # noqa
            fails.append((f"{loader}/keyword-arguments-not-accepted", f"{where} delimiter={d!r}: {type(e).__name__}: {e}"))
            continue
        m = Model(model.records, d)
        ok = c.delimiter == d
        for r in model.records[:2]:
            if d not in r.prefix:
                ok = ok and c.expand(r.prefix + d + "1") == m.expand(r.prefix + d + "1") and c.compress(r.uri_prefix + "#7") == m.compress(r.uri_prefix + "#7")
        if not ok:
            fails.append((f"{loader}/delimiter-keyword-lost", f"{where}: loaded with delimiter={d!r} but the converter uses {c.delimiter!r}"))


def compare_with_model(conv, model, fails, where, loader):
    if record_set(conv) != model.record_set():
        fails.append((f"{loader}/records-differ-from-denotation", f"{where}: records {sorted(map(repr, record_set(conv)))}, denotation {sorted(map(repr, model.record_set()))}"))
        return
    for r in model.records:
        for p in r.prefixes:
            if conv.expand(p + ":1") != r.uri_prefix + "1":
                fails.append((f"{loader}/listed-pair-does-not-expand", f"{where}: expand({p + ':1'!r}) = {conv.expand(p + ':1')!r}"))
        for u in r.uri_prefixes:
            if conv.compress(u + "#7") != model.compress(u + "#7"):
                fails.append((f"{loader}/listed-pair-does-not-compress", f"{where}: compress({u + '#7'!r}) = {conv.compress(u + '#7')!r}, expected {model.compress(u + '#7')!r}"))


def file_variants(loader_fn, data, conv_obj, fails, where, loader, ctx):
    path = os.path.join(tmpdir(), f"{os.getpid()}.json")
    with open(path, "w", encoding="utf-8") as f:
        json.dump(data, f)
    for kind, arg in (("str", path), ("Path", Path(path))):
        try:
            c = loader_fn(arg)
        except Exception as e:  # noqa
            fails.append((f"{loader}/file-load-raises/{kind}", f"{where}: loading the same data from a JSON file ({kind}) raised {type(e).__name__}: {e}"))
            continue
        if not same_converter(c, conv_obj):
            fails.append((f"{loader}/file-load-differs-from-object/{kind}", f"{where}: converter loaded from file ({kind}) differs from the one loaded from the object"))
        if ctx is not None:
            ctx.count("file_loads")


def check_paths(ctx=None):
    """Dispatch object vs. path: a str that is a (relative) file name is a path, whatever it looks like."""
    fails = []
    data = {"a": "x", "b": "y"}
    want = Converter.from_prefix_map(data)
    d = tmpdir()
    old = os.getcwd()
    names = ["[draft] prefixes.json", "{braces}.json", "{}", "[]", "http.json", "ftp", "https", " leading space.json", "é ü.json", "a:b.json", "nested/inner.json"]
    try:
        os.chdir(d)
        os.makedirs("nested", exist_ok=True)
        for name in names:
            with open(name, "w", encoding="utf-8") as f:
                json.dump(data, f)
            for kind, arg in (("relative str", name), ("absolute str", os.path.join(d, name)), ("Path", Path(name))):
                try:
                    c = curies.load_prefix_map(arg)
                except Exception as e:  # noqa
                    fails.append((f"file-load-raises/{kind}", f"load_prefix_map({arg!r}) ({kind}, file exists): {type(e).__name__}: {str(e)[:80]}"))
                    continue
                if not same_converter(c, want):
                    fails.append((f"file-load-differs-from-object/{kind}", f"load_prefix_map({arg!r}) has {len(c.records)} records"))
                if ctx is not None:
                    ctx.count("file_loads")
                    ctx.count("unusual_paths")
        epm = [{"prefix": "a", "uri_prefix": "x", "prefix_synonyms": ["s"]}]
        with open("[e].json", "w") as f:
            json.dump(epm, f)
        if not same_converter(curies.load_extended_prefix_map("[e].json"), curies.load_extended_prefix_map(epm)):
            fails.append(("file-load-differs-from-object/relative str", "load_extended_prefix_map('[e].json')"))
        with open("{j}.json", "w") as f:
            json.dump({"@context": data}, f)
        if not same_converter(curies.load_jsonld_context("{j}.json"), want):
            fails.append(("file-load-differs-from-object/relative str", "load_jsonld_context('{j}.json')"))
    finally:
        os.chdir(old)
    return fails


# ---- the loaders --------------------------------------------------------------------------------------------------
def check_prefix_map(items, ctx=None):
    fails = []
    model = Model([mrec(p, u) for p, u in items], ":")
    if not model.valid():
        return fails  # clashing inputs are C04's subject
    where = f"from_prefix_map({dict(items)})"
    first = None
    for perm in it.permutations(items):
        try:
            conv = Converter.from_prefix_map(dict(perm))
        except Exception as e:  # noqa
            return [("from_prefix_map/raises", f"{where} order {list(perm)}: {type(e).__name__}: {e}")]
        compare_with_model(conv, model, fails, where, "from_prefix_map")
        if first is None:
            first = conv
            file_variants(curies.load_prefix_map, dict(perm), conv, fails, where, "from_prefix_map", ctx)
            check_kwargs(Converter.from_prefix_map, dict(perm), model, fails, where, "from_prefix_map")
            check_kwargs(lambda data_, **kw: Converter(curies.upgrade_prefix_map(data_), **kw), dict(perm), model, fails, where, "constructor")
            epm = [{"prefix": p, "uri_prefix": u} for p, u in perm]
            try:
                c2 = Converter.from_extended_prefix_map(epm)
                if not same_converter(c2, conv):
                    fails.append(("from_extended_prefix_map/differs-from-equivalent-prefix-map", f"{where}"))
                # the signature accepts any iterable of dicts or Record objects, also one-shot ones
                recs = [curies.Record(**d) for d in epm]
                shapes = {"tuple": tuple(epm), "generator": (d for d in epm), "iterator": iter(epm), "records": list(recs),
                          "records-generator": (r for r in [curies.Record(**d) for d in epm]), "mixed": [recs[0], *epm[1:]] if epm else []}
                for shape, data in shapes.items():
                    c3 = Converter.from_extended_prefix_map(data)
                    if not same_converter(c3, conv):
                        fails.append((f"from_extended_prefix_map/depends-on-the-kind-of-iterable/{shape}", f"{where}: given as {shape} the result has {len(c3.records)} records"))
                c4 = Converter(r for r in [curies.Record(**d) for d in epm])
                if not same_converter(c4, conv):
                    fails.append(("constructor/depends-on-the-kind-of-iterable/generator", f"{where}"))
                if ctx is not None:
                    ctx.count("iterable_shapes", len(shapes) + 1)
                file_variants(curies.load_extended_prefix_map, epm, c2, fails, where, "from_extended_prefix_map", ctx)
                check_kwargs(Converter.from_extended_prefix_map, epm, model, fails, where, "from_extended_prefix_map")
            except Exception as e:  # noqa
                fails.append(("from_extended_prefix_map/raises", f"{where}: {type(e).__name__}: {e}"))
        elif not same_converter(conv, first):
            fails.append(("from_prefix_map/depends-on-dictionary-order", f"{where} order {list(perm)}"))
        if ctx is not None:
            ctx.count("transitions")
            ctx.state(hash(canon(conv)))
        if fails:
            break
    return fails


def check_upgrade(items, ctx=None):
    fails = []
    where = f"upgrade_prefix_map({dict(items)})"
    groups = {}
    for p, u in items:
        groups.setdefault(u, []).append(p)
    model = Model([mrec(sorted(ps)[0], u, sorted(ps)[1:]) for u, ps in groups.items()], ":")
    for perm in it.permutations(items):
        try:
            recs = curies.upgrade_prefix_map(dict(perm))
            conv = Converter(recs)
        except Exception as e:  # noqa
            return [("upgrade_prefix_map/result-rejected-by-strict-converter", f"{where} order {list(perm)}: {type(e).__name__}: {str(e)[:80]}")]
        if record_set(conv) != model.record_set():
            got = {r.prefix for r in conv.records}
            want = {r.prefix for r in model.records}
            kind = "not-the-lexicographically-first-prefix" if got != want else "records-differ"
            return [(f"upgrade_prefix_map/{kind}", f"{where} order {list(perm)}: records {sorted(map(repr, record_set(conv)))}, expected {sorted(map(repr, model.record_set()))}")]
        compare_with_model(conv, model, fails, where, "upgrade_prefix_map")
        if ctx is not None:
            ctx.count("transitions")
            ctx.state(hash(canon(conv)))
            if any(len(v) > 1 for v in groups.values()):
                ctx.count("upgrade_non_injective")
        if fails:
            break
    return fails


PRIORITY_LISTS = [l for n in (1, 2, 3) for l in it.permutations(U4, n)] + [("x", "X", "X"), ("y", "xy", "X", "xy")]   # a synonym may repeat


def check_priority(items, ctx=None):
    fails = []
    model = Model([mrec(p, us[0], (), tuple(dict.fromkeys(us[1:]))) for p, us in items], ":")
    if not model.valid():
        return fails
    where = f"from_priority_prefix_map({ {p: list(us) for p, us in items} })"
    first = None
    for perm in it.permutations(items):
        data = {p: list(us) for p, us in perm}
        try:
            conv = Converter.from_priority_prefix_map(data)
        except Exception as e:  # noqa
            return [("from_priority_prefix_map/raises", f"{where}: {type(e).__name__}: {e}")]
        if record_set(conv) != model.record_set():
            canon_ok = {(r.prefix, r.uri_prefix) for r in conv.records} == {(r.prefix, r.uri_prefix) for r in model.records}
            kind = "records-differ" if canon_ok else "first-uri-prefix-not-canonical"
            return [(f"from_priority_prefix_map/{kind}", f"{where}: {sorted(map(repr, record_set(conv)))}, denotation {sorted(map(repr, model.record_set()))}")]
        compare_with_model(conv, model, fails, where, "from_priority_prefix_map")
        if first is None:
            first = conv
            file_variants(Converter.from_priority_prefix_map, data, conv, fails, where, "from_priority_prefix_map", ctx)
            check_kwargs(Converter.from_priority_prefix_map, data, model, fails, where, "from_priority_prefix_map")
            # the extended-prefix-map loader takes Record objects too - also ones that lived in a converter and gained their
            # synonyms there, by merges, after having been created without any
            live = Converter([])
            for r in model.records:
                live.add_record(curies.Record(prefix=r.prefix, uri_prefix=r.uri_prefix))
            for r in model.records:
                for u in r.usyn:
                    live.add_record(curies.Record(prefix=r.prefix, uri_prefix=u), merge=True)
            for shape, recs_ in (("records-of-a-live-converter", live.records), ("generator-over-live-records", (r for r in live.records))):
                try:
                    c5 = Converter.from_extended_prefix_map(recs_)
                except Exception as e:  # noqa
                    fails.append((f"from_extended_prefix_map/raises/{shape}", f"{where}: {type(e).__name__}: {e}"))
                    continue
                if record_set(c5) != model.record_set():
                    fails.append((f"from_extended_prefix_map/records-differ-from-denotation/{shape}", f"{where}: given the records of a converter that reached this content through merges, the result has {sorted(map(repr, record_set(c5)))}"))
        if ctx is not None:
            ctx.count("transitions")
            ctx.state(hash(canon(conv)))
        if fails:
            break
    return fails


def check_reverse(items, ctx=None):
    fails = []
    where = f"from_reverse_prefix_map({dict(items)})"
    groups = {}
    for u, p in items:
        groups.setdefault(p, set()).add(u)
    first = None
    for perm in it.permutations(items):
        try:
            conv = Converter.from_reverse_prefix_map(dict(perm))
        except Exception as e:  # noqa
            return [("from_reverse_prefix_map/raises", f"{where} order {list(perm)}: {type(e).__name__}: {str(e)[:80]}")]
        recs = {r.prefix: r for r in conv.records}
        if set(recs) != set(groups) or len(conv.records) != len(groups):
            return [("from_reverse_prefix_map/groups-differ", f"{where} order {list(perm)}: records for {sorted(recs)}, groups {sorted(groups)}")]
        for p, us in groups.items():
            r = recs[p]
            if {r.uri_prefix, *r.uri_prefix_synonyms} != us or len(r.uri_prefix_synonyms) != len(us) - 1 or r.prefix_synonyms:
                fails.append(("from_reverse_prefix_map/uri-prefixes-of-group-differ", f"{where} order {list(perm)}: {p!r} has {[r.uri_prefix, *r.uri_prefix_synonyms]}, group {sorted(us)}"))
            elif len(r.uri_prefix) != min(map(len, us)):
                fails.append(("from_reverse_prefix_map/canonical-is-not-a-shortest-uri-prefix", f"{where} order {list(perm)}: {p!r} canonical {r.uri_prefix!r}, group {sorted(us)}"))
        m = model_of(conv)
        compare_with_model(conv, m, fails, where, "from_reverse_prefix_map")
        if first is None:
            first = conv
            file_variants(Converter.from_reverse_prefix_map, dict(perm), conv, fails, where, "from_reverse_prefix_map", ctx)
            check_kwargs(Converter.from_reverse_prefix_map, dict(perm), m, fails, where, "from_reverse_prefix_map")
        if ctx is not None:
            ctx.count("transitions")
            ctx.state(hash(canon(conv)))
            if any(len(us) > 1 for us in groups.values()):
                ctx.count("reverse_groups_with_synonyms")
        if fails:
            break
    return fails


JSONLD_KEYS = {"a": "x", "b": "y", "@vocab": "v", "@base": "w", "": "e", "@x": "q", "c": ""}   # "c" is mapped to the empty IRI


def jsonld_values(uri):
    return [
        ("string", uri),
        ("prefix-dict", {"@id": uri, "@prefix": True}),
        ("prefix-dict-reordered", {"@prefix": True, "@id": uri}),
        ("id-only", {"@id": uri}),
        ("prefix-false", {"@id": uri, "@prefix": False}),
        ("prefix-false-only", {"@prefix": False}),
        ("prefix-true-only", {"@prefix": True}),                     # an expanded term definition need not carry @id
        ("prefix-true-null-id", {"@id": None, "@prefix": True}),
        ("number", 5),
        ("null", None),
        ("list", [uri]),
    ]


TAKEN = {"string", "prefix-dict", "prefix-dict-reordered"}


def check_jsonld(terms, ctx=None):
    """terms: list of (key, kind)."""
    fails = []
    ctxt_items = []
    denot = []
    for key, kind in terms:
        uri = JSONLD_KEYS[key]
        value = dict(jsonld_values(uri))[kind]
        ctxt_items.append((key, value))
        if key and not key.startswith("@") and kind in TAKEN:
            denot.append(mrec(key, uri))
    model = Model(denot, ":")
    where = f"from_jsonld({{'@context': {dict(ctxt_items)}}})"
    first = None
    for perm in it.permutations(ctxt_items):
        data = {"@context": dict(perm)}
        try:
            conv = Converter.from_jsonld(data)
        except Exception as e:  # noqa
            return [(f"from_jsonld/raises/{type(e).__name__}", f"{where}: {type(e).__name__}: {e}")]
        if record_set(conv) != model.record_set():
            got = {r.prefix for r in conv.records}
            want = {r.prefix for r in model.records}
            kind = "ignorable-term-taken" if got - want else "valid-term-dropped" if want - got else "records-differ"
            return [(f"from_jsonld/{kind}", f"{where}: prefixes {sorted(got)}, denotation {sorted(want)}")]
        compare_with_model(conv, model, fails, where, "from_jsonld")
        if first is None:
            first = conv
            file_variants(curies.load_jsonld_context, data, conv, fails, where, "from_jsonld", ctx)
            check_kwargs(Converter.from_jsonld, data, model, fails, where, "from_jsonld")
        if ctx is not None:
            ctx.count("transitions")
            ctx.state(hash(canon(conv)))
            if len(denot) < len(terms):
                ctx.count("jsonld_with_ignored_terms")
        if fails:
            break
    return fails


RDF_BINDINGS = [("", "http://d/"), ("a", "http://x/"), ("b", "http://y#"), ("ns1", "http://n1/"), ("ns2", "http://n2#"), ("default1", "http://dd/")]   # names rdflib itself would generate are ordinary names when the user binds them


def check_jsonld_raw(items, ctx=None):
    """items: explicit (key, value) pairs of a context; denotation by the rule: non-empty key not starting with '@' whose value is a
    string (or a dict with @prefix true) is a prefix definition; everything else is skipped."""
    fails = []
    denot = []
    for key, value in items:
        if key and not key.startswith("@"):
            if isinstance(value, str):
                denot.append(mrec(key, value))
            elif isinstance(value, dict) and value.get("@prefix") is True and isinstance(value.get("@id"), str):
                denot.append(mrec(key, value["@id"]))
    model = Model(denot, ":")
    if not model.valid():
        return fails
    where = f"from_jsonld({{'@context': {dict(items)!r}}})"
    for perm in it.permutations(items):
        data = {"@context": dict(perm)}
        try:
            conv = Converter.from_jsonld(data)
        except Exception as e:  # noqa
            return [(f"from_jsonld/raises/{type(e).__name__}", f"{where}: {type(e).__name__}: {e}")]
        if record_set(conv) != model.record_set():
            got = {r.prefix for r in conv.records}
            want = {r.prefix for r in model.records}
            kind = "ignorable-term-taken" if got - want else "valid-term-dropped" if want - got else "records-differ"
            return [(f"from_jsonld/{kind}", f"{where}: prefixes {sorted(got)}, denotation {sorted(want)}")]
        file_variants(curies.load_jsonld_context, data, conv, fails, where, "from_jsonld", ctx)
        if ctx is not None:
            ctx.count("transitions")
    return fails


def check_str_subclasses():
    """Values that are str subclasses - rdflib.URIRef (what Graph.namespaces() yields) compares unequal to the plain string it
    holds - denote the same maps as the plain strings."""
    import rdflib

    fails = []
    U = rdflib.URIRef
    plain = {"b": "http://x/", "a": "http://x/", "c": "http://y/"}
    for label, mixed in (("URIRef-values", {"b": U("http://x/"), "a": "http://x/", "c": U("http://y/")}), ("URIRef-values-2", {"b": "http://x/", "a": U("http://x/"), "c": "http://y/"}),
                         ("all-URIRef", {k: U(v) for k, v in plain.items()})):
        for order in (list(mixed), list(mixed)[::-1]):
            data = {k: mixed[k] for k in order}
            where = f"upgrade_prefix_map({ {k: (('URIRef(%r)' % str(v)) if isinstance(v, U) else v) for k, v in data.items()} })"
            try:
                recs = curies.upgrade_prefix_map(data)
                conv = Converter(recs)
            except Exception as e:  # noqa
                fails.append((f"upgrade_prefix_map/records-rejected-by-strict-converter/{label}", f"{where}: {type(e).__name__}: {str(e)[:100]}"))
                continue
            want = Converter(curies.upgrade_prefix_map({k: plain[k] for k in order}))
            if record_set(conv) != record_set(want):
                fails.append((f"upgrade_prefix_map/records-differ-from-denotation/{label}", f"{where}: {sorted(map(repr, record_set(conv)))}, with plain strings {sorted(map(repr, record_set(want)))}"))
    bij = {"a": U("http://x/"), "c": U("http://y/")}
    for name, make in (("from_prefix_map", lambda: Converter.from_prefix_map(bij)), ("from_reverse_prefix_map", lambda: Converter.from_reverse_prefix_map({v: k for k, v in bij.items()})),
                       ("from_priority_prefix_map", lambda: Converter.from_priority_prefix_map({k: [v, U(str(v) + "2")] for k, v in bij.items()}))):
        try:
            conv = make()
        except Exception as e:  # noqa
            fails.append((f"{name}/raises", f"{name} with rdflib.URIRef values: {type(e).__name__}: {str(e)[:100]}"))
            continue
        for k, v in bij.items():
            if conv.expand(k + ":1") != str(v) + "1" or conv.compress(str(v) + "1") != k + ":1":
                fails.append((f"{name}/listed-pair-does-not-expand", f"{name} with rdflib.URIRef values: expand({k + ':1'!r}) = {conv.expand(k + ':1')!r}"))
    return fails


def token_cases():
    """Breadth sweep (mc/sweeps.py): every token inside and as the whole of a prefix / URI prefix, through every loader."""
    from .. import sweeps

    out = []
    for t in sweeps.TOKENS:
        tp = "" if ":" in t else t
        two = [("p" + tp, "u" + t + "/"), ("r" + tp, "w" + t)]
        exact = [("k", t), ("r", "w/")]
        out += [("prefix_map", two), ("prefix_map", exact), ("upgrade", two), ("upgrade", exact)]
        out += [("reverse", [("u" + t + "/", "p" + tp), ("v" + t, "p" + tp), ("w" + t, "r" + tp)]), ("reverse", [(t, "k"), ("w/", "r")])]
        out += [("priority", [("p" + tp, ("u" + t + "/", "v" + t)), ("r" + tp, ("w" + t,))]), ("priority", [("k", (t, "w/"))]), ("priority", [("k", ("w/", t))])]
        out += [("jsonld-raw", two), ("jsonld-raw", exact), ("jsonld-raw", [("k", {"@id": t, "@prefix": True}), ("@" + t, "w/")])]
        if ":" not in t:
            out += [("prefix_map", [(t, "u/"), ("r", "w/")]), ("reverse", [("u/", t)]), ("priority", [(t, ("u/", "v/"))]), ("jsonld-raw", [(t, "u/"), ("r", "w/")])]
    return out



def check_rdflib(subset, ctx=None):
    import rdflib

    fails = []
    model = Model([mrec(p, u) for p, u in subset], ":")
    for perm in it.permutations(subset):
        g = rdflib.Graph(bind_namespaces="none")
        for p, u in perm:
            g.bind(p, rdflib.Namespace(u))
        where = f"from_rdflib(bindings {list(perm)})"
        for what, obj in (("graph", g), ("namespace_manager", g.namespace_manager)):
            try:
                conv = Converter.from_rdflib(obj)
            except Exception as e:  # noqa
                fails.append((f"from_rdflib/raises/{what}", f"{where}: {type(e).__name__}: {e}"))
                continue
            # rdflib may add bindings of its own; compare on the listed ones and require nothing else
            extra = {r.prefix for r in conv.records} - {p for p, _ in perm}
            if extra - {"xml"}:
                fails.append(("from_rdflib/extra-prefixes", f"{where}: {sorted(extra)}"))
            sub = Model([r for r in model_of(conv).records if r.prefix in {p for p, _ in perm}], ":")
            if sub.record_set() != model.record_set():
                fails.append((f"from_rdflib/records-differ-from-bindings/{what}", f"{where}: {sorted(map(repr, sub.record_set()))}"))
            for p, u in perm:
                if conv.expand(p + ":1") != u + "1" or conv.compress(u + "1") != p + ":1":
                    fails.append((f"from_rdflib/binding-does-not-round-trip/{what}", f"{where}: prefix {p!r}: expand -> {conv.expand(p + ':1')!r}, compress -> {conv.compress(u + '1')!r}"))
            # what a loaded converter learns later is its own business: later loads of the same bindings are not affected
            try:
                for k_, (p, u) in enumerate(perm):
                    conv.add_record(curies.Record(prefix=f"zs{k_}", uri_prefix=u), merge=True)
                    conv.add_record(curies.Record(prefix=p, uri_prefix=u + "zs/"), merge=True)
            except Exception as e:  # noqa
                fails.append((f"from_rdflib/loaded-converter-cannot-be-extended/{what}", f"{where}: {type(e).__name__}: {e}"))
            if ctx is not None:
                ctx.count("transitions")
                ctx.count("rdflib_loads")
                if any(p == "" for p, _ in perm):
                    ctx.count("rdflib_default_namespace")
    return fails


# ---- units ------------------------------------------------------------------------------------------------------------
def units(tier, seed):
    us = []
    nkeys = 4
    for kind in ("prefix_map", "upgrade", "reverse"):
        us.extend({"kind": kind, "part": i, "of": 16, "nkeys": nkeys} for i in range(16))
    us.extend({"kind": "priority", "part": i, "of": 32, "tier": tier} for i in range(32))
    for kind in ("prefix_map", "upgrade", "reverse", "priority"):
        us.extend({"kind": kind, "part": i, "of": 4, "nkeys": 4, "tier": tier, "ws": True} for i in range(4))
        us.extend({"kind": kind, "part": i, "of": 2, "nkeys": 4, "tier": tier, "cross": True} for i in range(2))
    us.extend({"kind": "jsonld", "part": i, "of": 32, "tier": tier} for i in range(32))
    us.extend({"kind": "rdflib", "part": i, "of": 4} for i in range(4))
    us.append({"kind": "paths"})
    us.extend({"kind": "tokens", "part": i, "of": 16} for i in range(16))
    return us


WS_P = ["a", "a ", " a", "a\n"]
WS_U = ["x", "x ", "\tx", "x\u00a0"]


def cases(unit):
    kind = unit["kind"]
    if kind == "tokens":
        return token_cases()
    if unit.get("cross"):   # CURIE prefixes and URI prefixes are separate name spaces: the same string may occur on both sides
        CP, CU = ["a", "x", "b"], ["x", "a", "b"]
        if kind in ("prefix_map", "upgrade"):
            return [(kind, g) for g in partial_maps(CP, CU) if 1 <= len(g) <= 3]
        if kind == "reverse":
            return [(kind, g) for g in partial_maps(CU, CP) if 1 <= len(g) <= 3]
        if kind == "priority":
            return [(kind, [("a", l1), ("x", l2)]) for l1 in it.permutations(CU, 2) for l2 in it.permutations(CU, 2)] + [(kind, [("a", l)]) for l in it.permutations(CU, 3)]
    if unit.get("ws"):   # strings that differ only by leading / trailing whitespace are different strings
        if kind in ("prefix_map", "upgrade"):
            return [(kind, g) for g in partial_maps(WS_P, WS_U) if 1 <= len(g) <= 3]
        if kind == "reverse":
            return [(kind, g) for g in partial_maps(WS_U, WS_P[:3]) if 1 <= len(g) <= 3]
        if kind == "priority":
            return [(kind, [("a", l1), ("a ", l2)]) for l1 in it.permutations(WS_U, 2) for l2 in it.permutations(WS_U, 2)]
    if kind in ("prefix_map", "upgrade"):
        keys = P4[: unit["nkeys"]] if unit["nkeys"] == 4 else ["A", "b", "B"]
        gen = list(partial_maps(P4 if unit["nkeys"] == 4 else P4, U4 if kind == "upgrade" else U4))
        if unit["nkeys"] < 4:
            gen = [g for g in gen if len(g) <= 3]
        return [(kind, g) for g in gen]
    if kind == "reverse":
        gen = list(partial_maps(U4, ["a", "A", "b"]))
        if unit["nkeys"] < 4:
            gen = [g for g in gen if len(g) <= 3] + [g for g in gen if len(g) == 4 and len({p for _, p in g}) <= 2][:20]
        return [(kind, g) for g in gen]
    if kind == "priority":
        lists = PRIORITY_LISTS if unit["tier"] == "thorough" else [l for l in PRIORITY_LISTS if len(l) <= 2] + [("x", "xy", "X"), ("y", "X", "x")]
        n3 = (40, 40, 40) if unit["tier"] == "thorough" else (10, 10, 6)
        two = [[("a", l1), ("A", l2)] for l1 in PRIORITY_LISTS for l2 in PRIORITY_LISTS]
        three = [[("a", l1), ("A", l2), ("b", l3)] for l1 in lists[: n3[0]] for l2 in lists[: n3[1]] for l3 in lists[: n3[2]]]
        return [(kind, g) for g in [[("a", l)] for l in PRIORITY_LISTS] + two + three]
    if kind == "jsonld":
        keys = list(JSONLD_KEYS)
        kinds = [k for k, _ in jsonld_values("u")]
        out = []
        maxk = 3
        for n in range(1, maxk + 1):
            for ks in it.combinations(keys, n):
                for vs in it.product(kinds, repeat=n):
                    out.append((kind, list(zip(ks, vs))))
        return out
    if kind == "rdflib":
        return [(kind, list(s)) for n in range(0, 4) for s in it.combinations(RDF_BINDINGS, n)]
    raise ValueError(kind)


CHECKS = {"prefix_map": check_prefix_map, "upgrade": check_upgrade, "priority": check_priority, "reverse": check_reverse,
          "jsonld": check_jsonld, "rdflib": check_rdflib, "jsonld-raw": check_jsonld_raw}


def run_unit(unit, ctx):
    if unit["kind"] == "paths":
        for sig, msg in check_paths(ctx)[:3]:
            ctx.violation("C13/" + sig, msg, {"kind": "paths", "data": []})
        ctx.count("str_subclass_checks")
        for sig, msg in check_str_subclasses()[:3]:
            ctx.violation("C13/" + sig, msg, {"kind": "str-subclasses", "data": []})
        return
    for i, (kind, data) in enumerate(cases(unit)):
        if "of" in unit and i % unit["of"] != unit["part"]:
            continue
        fails = CHECKS[kind](data, ctx)
        if unit["kind"] == "tokens":
            ctx.count("sweep_cases")
        ctx.count("evaluations")
        ctx.count("cases_" + kind)
        case = {"kind": kind, "data": [list(x) for x in data]}
        if fails:
            for sig, msg in fails[:2]:
                ctx.violation("C13/" + sig, msg, case)
        else:
            ctx.count("validated")
            if len(data) >= 2:
                ctx.distinct(hash((kind, repr(data))))
                ctx.sample(case)


def replay(case):
    if case["kind"] == "paths":
        return [("C13/" + s, m) for s, m in check_paths(None)]
    if case["kind"] == "str-subclasses":
        return [("C13/" + s, m) for s, m in check_str_subclasses()]
    data = [tuple(tuple(y) if isinstance(y, list) and case["kind"] == "priority" else y for y in x) for x in case["data"]]
    return [("C13/" + s, m) for s, m in CHECKS[case["kind"]](data, None)]


def describe(tier):
    return {
        "level": "model_checking",
        "rule": "prefix maps / upgrade_prefix_map inputs: all partial functions {a,A,b,B} -> {x,xy,X,y} in every insertion "
        "order; reverse maps {x,xy,X,y} -> {a,A,b} in every order; priority maps over 1..3 keys with lists of 1..3 URI prefixes in every key "
        "order; JSON-LD contexts over 6 keys (2 plain, 3 @-keywords, the empty key) x 9 term kinds in every order; rdflib graphs and namespace "
        "managers for every subset/order of 3 bindings incl. the default namespace; one order of each datum is additionally loaded from a JSON "
        "file via str and via Path; distinct_nontrivial = distinct inputs with >= 2 entries",
        "bounds": {"entries": 4, "jsonld_terms": 3},
        "exhaustive": True,
        "assumptions": ["remote locations (http/https/ftp strings) cannot be exercised offline", "inputs that clash are C04's subject and skipped here (except for upgrade_prefix_map, which must repair them)"],
    }


def required_counters(tier):
    return ["validated", "file_loads", "upgrade_non_injective", "reverse_groups_with_synonyms", "jsonld_with_ignored_terms", "rdflib_loads", "rdflib_default_namespace", "unusual_paths"] + ["cases_" + k for k in CHECKS]
