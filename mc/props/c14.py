"""C14 - written contexts read back to the same converter.

Converters in which one field at a time (prefix, URI prefix, prefix synonym, URI-prefix synonym, pattern) ranges over
ALL strings of length <= 2 over a character-class alphabet, the other fields plain, with a synonym-free record next to
one that has synonyms and a pattern, are written with every writer / option combination to real files and read back.
"""

from __future__ import annotations

import csv
import itertools as it
import os
import shutil
import tempfile

from ..engine import chunks
from ..impl import Converter, canon, curies, rec_key, record_set, to_record
from ..refmodel import Model, mrec
from ..universe import recs_from_json, recs_to_json, strings

PROP = "C14"
BASE_CLASSES = ["a", "1", " ", "\\", "'", "{", "}", "#", "/", ":", ".", "^", "$", "|", "%", "@", "é", "😀"]
EPM_EXTRA = ['"', "<", ">", "\t", "\n", "\r"]
FIELDS = ["prefix", "uri_prefix", "prefix_synonym", "uri_prefix_synonym", "pattern"]
_TMP = None


def tmpdir():
    global _TMP
    if _TMP is None or not os.path.isdir(_TMP):
        _TMP = tempfile.mkdtemp(prefix="c14.", dir="/dev/shm" if os.path.isdir("/dev/shm") else None)
        import atexit

        atexit.register(shutil.rmtree, _TMP, True)
    return _TMP


def make_records(field, value):
    """Two records side by side: one with synonyms and a pattern (perturbed in one field), one plain."""
    r1 = dict(prefix="p1", uri_prefix="http://u1/", psyn=["s1"], usyn=["http://v1/"], pattern="^\\d{7}$")
    if field == "prefix":
        r1["prefix"] = value
    elif field == "uri_prefix":
        r1["uri_prefix"] = value
    elif field == "prefix_synonym":
        r1["psyn"] = ["s1", value]
    elif field == "uri_prefix_synonym":
        r1["usyn"] = ["http://v1/", value]
    elif field == "pattern":
        r1["pattern"] = value
    # plain records sort both before and after the perturbed one, whatever its prefix
    recs = [mrec(r1["prefix"], r1["uri_prefix"], r1["psyn"], r1["usyn"], r1["pattern"]), mrec("p2", "http://u2/"), mrec("~z", "http://u3/"), mrec("!0", "http://u0/"),
            # a URI prefix that starts with another record's CURIE prefix and a colon is still an opaque string
            mrec("urn", "http://u4/"), mrec("p5", "urn:five:"), mrec("p6", "p2:x/")]
    return recs


def alphabet(writer):
    return BASE_CLASSES + (EPM_EXTRA if writer == "epm" else [])


def applicable(writer, field, value):
    if field == "pattern" and value == "" and writer != "epm":
        return False  # outside the extended prefix map the empty pattern is indistinguishable from "no pattern"
    if writer == "jsonld" and field in ("prefix", "prefix_synonym") and (value == "" or value.startswith("@")):
        return False
    if writer in ("jsonld", "tsv") and field in ("pattern",):
        return False  # these formats do not carry patterns
    if writer in ("jsonld", "tsv", "shacl") and field == "uri_prefix_synonym":
        return False  # ... nor URI-prefix synonyms
    if writer == "tsv" and field == "prefix_synonym":
        return False
    return True


SHACL_SMALL = ["a", "\\", "'", "{", "#", "^", "$", "é", " "]


def values_for(tier, writer):
    """quick: all strings up to length 2; thorough: up to length 3 (SHACL: length 3 over a 9-class sub-alphabet, the
    Turtle parser costs ~10 ms per file)."""
    if tier == "quick":
        return list(strings(alphabet(writer), 2))
    if writer == "shacl":
        base = list(strings(alphabet(writer), 2))
        return base + [v for v in strings(SHACL_SMALL, 3, 3)]
    return list(strings(alphabet(writer), 3))


def sweep_values(writer):
    """Breadth sweep (mc/sweeps.py): every token alone and embedded, and long values (line-length thresholds of a writer)."""
    from .. import sweeps

    toks = list(sweeps.TOKENS)
    if writer in ("shacl", "tsv"):   # quantifier: printable characters excluding double quote, angle brackets and control characters
        toks = [t for t in toks if t.isprintable() and not any(c in t for c in '"<>')]
    out = []
    for t in toks:
        out += [t, "a" + t + "b", t + t]
    for unit in ("ab-cd ef", "x", "http://e.org/a-b/", "é "):
        for L in (79, 80, 81, 99, 100, 101, 119, 120, 121, 130, 255, 256, 257):
            out.append((unit * (L // len(unit) + 1))[:L])
    return list(dict.fromkeys(out))


def check_empty(ctx=None):
    """A converter without records is a converter: the extended prefix map, the JSON-LD context and the TSV written from it read
    back to a converter without records - also at a path that held another converter's output before."""
    fails = []
    full = Converter([to_record(r) for r in make_records("prefix", "p1")])
    empty = Converter([])
    for writer in ("epm", "jsonld", "tsv"):
        for stale in (False, True):
            path = os.path.join(tmpdir(), f"{os.getpid()}.empty.{writer}.{int(stale)}")
            where = f"{writer}: empty converter" + (" written over another converter's file" if stale else " written to a new path")
            try:
                if writer == "epm":
                    if stale:
                        curies.write_extended_prefix_map(full, path)
                    curies.write_extended_prefix_map(empty, path)
                    back = curies.load_extended_prefix_map(path)
                    n = len(back.records)
                elif writer == "jsonld":
                    if stale:
                        curies.write_jsonld_context(full, path)
                    curies.write_jsonld_context(empty, path)
                    n = len(curies.load_jsonld_context(path).records)
                else:
                    if stale:
                        curies.write_tsv(full, path)
                    curies.write_tsv(empty, path)
                    n = len(read_tsv(path)[2])
            except Exception as e:  # noqa
                fails.append((f"{writer}/round-trip-raises/empty-converter", f"{where}: {type(e).__name__}: {str(e)[:100]}"))
                continue
            if ctx is not None:
                ctx.count("transitions", 2)
                ctx.count("empty_converter_round_trips")
            if n:
                fails.append((f"{writer}/records-differ/empty-converter", f"{where}: read back {n} record(s)"))
    return fails


def units(tier, seed):
    us = [{"kind": "empty"}]
    for writer in ("epm", "jsonld", "shacl", "tsv"):
        for field in FIELDS:
            if not applicable(writer, field, "a"):
                continue
            vals = [v for v in values_for(tier, writer) if applicable(writer, field, v)]
            vals += [v for v in sweep_values(writer) if applicable(writer, field, v) and v not in vals]
            nch = (24 if writer == "shacl" else 6) * (1 if tier == "quick" else 6)
            for ch in chunks(vals, nch):
                us.append({"writer": writer, "field": field, "values": ch})
    return us


def read_tsv(path):
    with open(path, newline="", encoding="utf-8") as f:
        rows = list(csv.reader(f, delimiter="\t"))
    return rows[0], {r[0]: r[1] for r in rows[1:]}, rows[1:]


def check(writer, field, value, ctx=None, mode=None):
    if mode is None:
        out = []
        for m in ("ctor", "merge-late"):
            out.extend(check(writer, field, value, ctx, m))
            if out:
                break
        return out
    fails = []
    recs = make_records(field, value)
    if not Model(recs).valid():
        return fails
    try:
        if mode == "ctor":
            conv = Converter([to_record(r) for r in recs])
        else:
            # records created without synonyms; the synonym lists are filled in place by later merges
            from .joint import build_merge_late

            conv = build_merge_late(recs, ":")
    except Exception:  # noqa
        return fails
    where = f"{writer}: record field {field} = {value!r} (converter built by {mode})"
    ordered_before = [(r.prefix, r.uri_prefix, list(r.prefix_synonyms), list(r.uri_prefix_synonyms), r.pattern) for r in conv.records]
    if mode == "merge-late" and writer != "epm":
        # writing is reading: another writer ran on this converter before (in every option combination) ...
        other = os.path.join(tmpdir(), f"{os.getpid()}.before")
        for pre in ("jsonld", "shacl", "tsv"):
            if pre == writer:
                continue
            try:
                if pre == "jsonld":
                    for inc_, exp_ in ((True, False), (True, True), (False, False)):
                        curies.write_jsonld_context(conv, other, include_synonyms=inc_, expand=exp_)
                elif pre == "shacl":
                    curies.write_shacl(conv, other, include_synonyms=True)
                else:
                    curies.write_tsv(conv, other)
            except Exception:  # noqa  (the other writer's own round trip is checked in its own case)
                pass
    path = os.path.join(tmpdir(), f"{os.getpid()}.{writer}")
    if mode == "merge-late":
        from pathlib import Path

        path = Path(path)   # the writers and loaders take str and Path alike
    if writer == "epm":
        try:
            curies.write_extended_prefix_map(conv, path)
            back = curies.load_extended_prefix_map(path)
        except Exception as e:  # noqa
            return [(f"epm/round-trip-raises/{field}", f"{where}: {type(e).__name__}: {str(e)[:100]}")]
        if ctx is not None:
            ctx.count("transitions", 2)
        exact = lambda c: sorted((r.prefix, r.uri_prefix, tuple(sorted(r.prefix_synonyms)), tuple(sorted(r.uri_prefix_synonyms)), r.pattern) for r in c.records)  # noqa
        if record_set(back) != record_set(conv) or [x for x in exact(back)] != [x for x in exact(conv)]:
            fails.append((f"epm/records-differ/{field}", f"{where}: read back {exact(back)}"))
    elif writer == "jsonld":
        for inc, exp in it.product((False, True), (False, True)):
            w = f"{where} include_synonyms={inc} expand={exp}"
            try:
                curies.write_jsonld_context(conv, path, include_synonyms=inc, expand=exp)
                back = curies.load_jsonld_context(path, strict=not inc)
            except Exception as e:  # noqa
                fails.append((f"jsonld/round-trip-raises/{field}", f"{w}: {type(e).__name__}: {str(e)[:100]}"))
                continue
            if ctx is not None:
                ctx.count("transitions", 2)
            want = dict(conv.prefix_map) if inc else dict(conv.bimap)
            got = dict(back.prefix_map)
            if got != want:
                kind = "synonyms-lost-or-wrong" if inc and {k: got.get(k) for k in conv.bimap} == dict(conv.bimap) else "canonical-prefix-map-differs"
                fails.append((f"jsonld/{kind}/{field}", f"{w}: read back {got}, expected {want}"))
    elif writer == "shacl":
        for inc in (False, True):
            w = f"{where} include_synonyms={inc}"
            try:
                curies.write_shacl(conv, path, include_synonyms=inc)
                back = curies.load_shacl(path, strict=not inc)
            except Exception as e:  # noqa
                fails.append((f"shacl/round-trip-raises/{field}", f"{w}: {type(e).__name__}: {str(e)[:100]}"))
                continue
            if ctx is not None:
                ctx.count("transitions", 2)
            want = dict(conv.prefix_map) if inc else dict(conv.bimap)
            got = dict(back.prefix_map)
            if got != want:
                kind = "synonyms-lost-or-wrong" if inc and {k: got.get(k) for k in conv.bimap} == dict(conv.bimap) else "canonical-prefix-map-differs"
                fails.append((f"shacl/{kind}/{field}", f"{w}: read back {got}, expected {want}"))
            pm = dict(back.pattern_map)
            want_pm = {}
            for r in conv.records:
                if r.pattern:
                    for p_ in [r.prefix] + (list(r.prefix_synonyms) if inc else []):
                        want_pm[p_] = r.pattern
            if pm != want_pm:
                kind = "pattern-on-a-record-that-has-none" if set(pm) - set(want_pm) else "patterns-differ"
                fails.append((f"shacl/{kind}/{field}", f"{w}: read back {pm}, expected {want_pm}"))
    elif writer == "tsv":
        try:
            curies.write_tsv(conv, path)
            header, got, rows = read_tsv(path)
        except Exception as e:  # noqa
            return [(f"tsv/round-trip-raises/{field}", f"{where}: {type(e).__name__}: {str(e)[:100]}")]
        if ctx is not None:
            ctx.count("transitions", 2)
        if got != dict(conv.bimap) or len(rows) != len(conv.records) or any(len(r) != 2 for r in rows):
            fails.append((f"tsv/prefix-map-differs/{field}", f"{where}: read back {got}, expected {dict(conv.bimap)}"))
        try:
            back = curies.load_prefix_map(got)
            if dict(back.bimap) != dict(conv.bimap):
                fails.append((f"tsv/prefix-map-differs/{field}", f"{where}: converter from the parsed TSV differs"))
        except Exception as e:  # noqa
            fails.append((f"tsv/parsed-map-rejected/{field}", f"{where}: {type(e).__name__}"))
    ordered_after = [(r.prefix, r.uri_prefix, list(r.prefix_synonyms), list(r.uri_prefix_synonyms), r.pattern) for r in conv.records]
    if ordered_after != ordered_before:
        fails.append((f"{writer}/writing-changed-the-converter/{field}", f"{where}: records before {ordered_before[:2]} ..., after {ordered_after[:2]} ..."))
    elif writer != "epm" and mode == "merge-late":
        # ... and the extended prefix map written afterwards still reproduces every record
        try:
            curies.write_extended_prefix_map(conv, path)
            back = curies.load_extended_prefix_map(path)
            if record_set(back) != record_set(conv):
                fails.append((f"epm/records-differ-after-other-writers/{field}", f"{where}: read back {sorted(map(repr, record_set(back)))}"))
        except Exception as e:  # noqa
            fails.append((f"epm/round-trip-raises-after-other-writers/{field}", f"{where}: {type(e).__name__}: {str(e)[:100]}"))
    if ctx is not None:
        ctx.count("evaluations")
        ctx.count("cases_" + writer)
        ctx.state(hash(canon(conv)))
        if not fails:
            ctx.count("validated")
        if any(c in value for c in "\\'{}#^$|%é😀\"<>\t\n\r "):
            ctx.distinct(hash((writer, field, value)))
    return fails


def run_unit(unit, ctx):
    if unit.get("kind") == "empty":
        for sig, msg in check_empty(ctx):
            ctx.violation("C14/" + sig, msg, {"kind": "empty"})
        return
    for v in unit["values"]:
        case = {"writer": unit["writer"], "field": unit["field"], "value": v}
        for sig, msg in check(unit["writer"], unit["field"], v, ctx)[:2]:
            ctx.violation("C14/" + sig, msg, case)
    if unit["values"]:
        ctx.sample({"writer": unit["writer"], "field": unit["field"], "value": unit["values"][-1]})


def replay(case):
    if case.get("kind") == "empty":
        return [("C14/" + s_, m_) for s_, m_ in check_empty(None)]
    return [("C14/" + s, m) for s, m in check(case["writer"], case["field"], case["value"], None)]


def describe(tier):
    return {
        "level": "model_checking",
        "rule": "for each writer (EPM, JSON-LD plain+expanded, SHACL, TSV) and each field the format carries: all strings of length <= 2 (thorough: 3; SHACL length 3 over 9 classes) over one "
        "representative per character class (letter, digit, space, backslash, quote, braces, #, /, :, ., ^, $, |, %, non-ASCII, astral; EPM "
        "additionally double quote, <, >, tab, LF, CR) as that field of a record with synonyms and a pattern, next to a plain record; "
        "both values of include_synonyms and expand; files written and read on a tmpfs; distinct_nontrivial = cases whose value "
        "contains a non-alphanumeric class",
        "bounds": {"string_len": 2 if tier == "quick" else 3, "classes": len(BASE_CLASSES), "epm_extra_classes": len(EPM_EXTRA), "shacl_len3_classes": len(SHACL_SMALL)},
        "exhaustive": True,
        "assumptions": ["patterns are None or non-empty", "no lone surrogates", "UTF-8 locale (the launcher sets PYTHONUTF8=1; the writers use the locale's default encoding)",
                        "with include_synonyms=True the file is read back with strict=False (it repeats the URI prefix for every synonym) and the full prefix_map is compared"],
    }


def required_counters(tier):
    return ["validated", "cases_epm", "cases_jsonld", "cases_shacl", "cases_tsv"]
