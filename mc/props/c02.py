"""C02 - CURIE expansion resolves any prefix or synonym to the canonical URI prefix.

Enumerates every small converter over CURIE prefixes {"", a, A, b, ab} (every set, every partition into records,
every canonical choice, 0..2 URI-prefix synonyms per record), every delimiter, built by the constructor and by late
merges, and queries it with every prefix x identifier combination and every short string; all expansion entry points
are compared with the reference model (split at the first delimiter, unique owner, untouched remainder).
"""

from __future__ import annotations

import itertools as it

from ..engine import chunks
from ..impl import Converter, Record, canon, curies, to_record
from ..refmodel import Model, mrec
from ..universe import recs_from_json, recs_to_json, set_partitions, strings

PROP = "C02"
ReferenceTuple = curies.ReferenceTuple

SIGMA_P = ["", "a", "A", "b", "ab"]
DELIMS = [":", "/", "::"]
URIS = [("x", ["x1", "x2"]), ("y", ["y1", "y2"]), ("w", ["w1", "w2"])]
UNREG = ["z", "B", "aB", "a b"]


def bounds(tier):
    return {"quick": {"max_prefixes": 3, "string_len": 3}, "thorough": {"max_prefixes": 4, "string_len": 4}}[tier]


def identifiers(d):
    return ["", "1", "12", d, "1" + d + "2", "/", "#", " ", "é", "x", "a", d + d, "1" + d]


def shapes(tier):
    b = bounds(tier)
    out = []
    for n in range(1, b["max_prefixes"] + 1):
        for S in it.combinations(SIGMA_P, n):
            for part in set_partitions(list(S), max_blocks=3):
                for pick in it.product(*[range(len(bl)) for bl in part]):
                    for nsyn in it.product(*[range(3)] * len(part)):
                        recs = []
                        for (uri, usyns), block, k, ns in zip(URIS, part, pick, nsyn):
                            recs.append(mrec(block[k], uri, [s for i, s in enumerate(block) if i != k], usyns[:ns]))
                        out.append(recs)
    return out


def units(tier, seed):
    from . import joint

    return [{"tier": tier, "shapes": [recs_to_json(r) for r in ch]} for ch in chunks(shapes(tier), 96)] + joint.sweep_units(tier)


_S = {}


def short_strings(d, n):
    key = (d, n)
    if key not in _S:
        chars = ["a", "A", "b", "1"] + sorted(set(d))
        _S[key] = list(strings(chars, n))
    return _S[key]


def multiset_ok(got, exp):
    """got: impl list; exp: (first, sorted rest) from the model."""
    if got is None or exp is None:
        return got is None and exp is None
    got = list(got)
    return len(got) >= 1 and got[0] == exp[0] and sorted(got[1:]) == exp[1]


def check_string(conv, model, s, fails, where):
    exp = model.expand(s)
    try:
        got = conv.expand(s)
    except Exception as e:  # noqa  (failure *reporting* is C08's subject; a raise is read as "no result" here)
        got = None if isinstance(e, ValueError) else ("raised", type(e).__name__)
    if got != exp:
        kind = "known-prefix-not-expanded" if got is None else "unknown-prefix-expanded" if exp is None else "wrong-uri"
        fails.append((f"C02/expand/{kind}", f"{where}: expand({s!r}) = {got!r}, reference {exp!r}"))
        return
    try:
        ga = conv.expand_all(s)
    except ValueError:
        ga = None
    if not multiset_ok(ga, model.expand_all(s)):
        fails.append(("C02/expand_all-differs", f"{where}: expand_all({s!r}) = {ga!r}, reference {model.expand_all(s)!r}"))
    if conv.is_curie(s) != (exp is not None):
        fails.append(("C02/is_curie-differs", f"{where}: is_curie({s!r}) = {conv.is_curie(s)!r} but expansion {'exists' if exp is not None else 'does not exist'}"))
    try:
        gp = conv.parse_curie(s)
    except ValueError:
        gp = None
    ep = model.parse_curie(s)
    if (None if gp is None else tuple(gp)) != ep:
        fails.append(("C02/parse_curie-differs", f"{where}: parse_curie({s!r}) = {gp!r}, reference {ep!r}"))


def check_pair(conv, model, p, i, fails, where):
    d = model.delimiter
    exp = model.expand_pair(p, i)
    got = conv.expand_pair(p, i)
    gr = conv.expand_reference(ReferenceTuple(p, i))
    if got != exp or gr != exp:
        fails.append(("C02/expand_pair-or-reference-differs", f"{where}: expand_pair({p!r},{i!r}) = {got!r}, expand_reference = {gr!r}, reference {exp!r}"))
    if d not in p:
        try:
            ge = conv.expand(p + d + i)
        except ValueError:
            ge = None
        if ge != got:
            fails.append(("C02/expand-disagrees-with-expand_pair", f"{where}: expand({p + d + i!r}) = {ge!r} but expand_pair({p!r},{i!r}) = {got!r}"))
    ga = conv.expand_pair_all(p, i)
    if not multiset_ok(ga, model.expand_pair_all(p, i)):
        fails.append(("C02/expand_pair_all-differs", f"{where}: expand_pair_all({p!r},{i!r}) = {ga!r}, reference {model.expand_pair_all(p, i)!r}"))


def build_variant(recs, delim, mode, probe):
    if mode == "ctor":
        return Converter([to_record(r) for r in recs], delimiter=delim)
    # merge-late: canonical pairs first, every synonym (CURIE side and URI side) arrives later by merge,
    # with observations in between on the live object
    conv = Converter([], delimiter=delim)
    m = Model([], delim)
    for k, r in enumerate(recs):
        # the first record carries a pattern (patterns play no role in expansion)
        conv.add_record(Record(prefix=r.prefix, uri_prefix=r.uri_prefix, pattern="^1$" if k == 0 else None))
        m.records.append(mrec(r.prefix, r.uri_prefix))
    probe(conv, m)
    for i, r in enumerate(recs):
        for s in r.psyn:
            conv.add_record(Record(prefix=s, uri_prefix=r.uri_prefix), merge=True)
            cur = m.records[i]
            m.records[i] = mrec(cur.prefix, cur.uri_prefix, cur.psyn + (s,), cur.usyn)
            probe(conv, m)
        for s in r.usyn:
            conv.add_record(Record(prefix=r.prefix, uri_prefix=s), merge=True)
            cur = m.records[i]
            m.records[i] = mrec(cur.prefix, cur.uri_prefix, cur.psyn, cur.usyn + (s,))
            probe(conv, m)
    return conv


def build_history(recs, delim, probe):
    """Canonical pairs first, then per record: two attempts that must be rejected (a new prefix on an existing URI
    prefix; an existing prefix as a later synonym), every synonym by merge, and a merge that is matched through a
    synonym while bringing a different URI prefix and a brand-new synonym.  Returns (converter, model)."""
    conv = Converter([], delimiter=delim)
    m = Model([], delim)
    for r in recs:
        conv.add_record(Record(prefix=r.prefix, uri_prefix=r.uri_prefix))
        m.records.append(mrec(r.prefix, r.uri_prefix))
    probe(conv, m)
    for i, r in enumerate(recs):
        for bad in (
            Record(prefix=f"gh{i}", uri_prefix=r.uri_prefix, prefix_synonyms=[f"gs{i}"]),
            Record(prefix=f"gq{i}", uri_prefix=f"gu{i}", prefix_synonyms=[f"gt{i}", r.prefix]),
        ):
            try:
                conv.add_record(bad)
                return conv, None   # accepted although it collides: that is C05's subject; this history is abandoned
            except ValueError:
                pass
        if i == 0 and len(recs) >= 2 and recs[1].prefix != r.prefix:
            # a merging call whose record names two different existing records must be refused too - and if it is not, the
            # prefixes keep resolving to the records they belong to (the comparison below is with the unchanged model)
            try:
                conv.add_record(Record(prefix=r.prefix, uri_prefix=r.uri_prefix, prefix_synonyms=[recs[1].prefix]), merge=True)
            except ValueError:
                pass
        probe(conv, m)
        for s in r.psyn:
            conv.add_record(Record(prefix=s, uri_prefix=r.uri_prefix), merge=True)
            cur = m.records[i]
            m.records[i] = mrec(cur.prefix, cur.uri_prefix, cur.psyn + (s,), cur.usyn)
        for s in r.usyn:
            conv.add_record(Record(prefix=r.prefix, uri_prefix=s), merge=True)
            cur = m.records[i]
            m.records[i] = mrec(cur.prefix, cur.uri_prefix, cur.psyn, cur.usyn + (s,))
        probe(conv, m)
        # the registered pair once more, bringing nothing but a fresh URI-prefix synonym (through add_prefix)
        conv.add_prefix(r.prefix, r.uri_prefix, uri_prefix_synonyms=[f"nv{i}"], merge=True)
        cur = m.records[i]
        m.records[i] = mrec(cur.prefix, cur.uri_prefix, cur.psyn, cur.usyn + (f"nv{i}",))
        probe(conv, m)
        if r.psyn:
            conv.add_record(Record(prefix=r.psyn[0], uri_prefix=f"nu{i}", prefix_synonyms=[f"ns{i}"]), merge=True)
            cur = m.records[i]
            m.records[i] = mrec(cur.prefix, cur.uri_prefix, cur.psyn + (f"ns{i}",), cur.usyn + (f"nu{i}",))
            probe(conv, m)
    return conv, m


GHOSTS = [f"{g}{i}" for i in range(3) for g in ("gh", "gs", "gq", "gt", "ns")]


def run_case(case, ctx=None):
    fails = []
    recs = recs_from_json(case["recs"])
    d = case["delim"]
    b = bounds(case.get("tier", "quick"))
    model0 = Model(recs, d)
    ids = identifiers(d)
    sweepQ, sweepP = [], []
    if "tokens" in case:   # breadth sweep (mc/sweeps.py)
        from .. import sweeps

        sweepQ = sweeps.config_queries(model0, case["tokens"], case.get("idents", sweeps.IDENTS))
        sweepP = list(dict.fromkeys(v for p in sorted(model0.all_prefixes()) for v in sweeps.variants(p)))
        ids = list(dict.fromkeys(ids + list(case.get("idents", sweeps.IDENTS)) + [i for t in case["tokens"] for i in (t, "1" + t)]))
    for mode in ("ctor", "merge-late", "history", "loader", "shared-list", "one-shot-iterable", "copies"):
        model = model0
        prefixes = sorted(model.all_prefixes()) + UNREG + (GHOSTS if mode == "history" else []) + [p for p in sweepP if p not in UNREG]
        if mode == "merge-late" and not any(r.psyn or r.usyn for r in recs):
            continue
        where = f"records {case['recs']} delimiter {d!r} mode {mode}"
        step = []

        def probe(conv, m, _w=where):
            for p in prefixes:
                check_pair(conv, m, p, "1", step, _w + " (intermediate state)")
                check_string(conv, m, p + d + "1", step, _w + " (intermediate state)")

        try:
            if mode == "history":
                conv, model = build_history(recs, d, probe)
                if model is None:
                    continue
            elif mode == "one-shot-iterable":
                # the constructor takes any iterable of records
                conv = Converter((to_record(r) for r in recs), delimiter=d)
                c_it = Converter(iter([to_record(r) for r in recs]), delimiter=d)
                if canon(c_it) != canon(conv) or canon(conv) != canon(Converter([to_record(r) for r in recs], delimiter=d)):
                    fails.append(("C02/constructor-depends-on-the-kind-of-iterable", f"{where}: a generator / an iterator / a list of the same records give different converters"))
            elif mode == "copies":
                # copies of a converter are converters: after one object of each pair learnt a synonym through a merge, every
                # object answers for what its own records list says
                import copy as _copy
                import pickle as _pickle
                from ..impl import model_of

                if not recs:
                    continue
                base = Converter([to_record(r) for r in recs], delimiter=d)
                for p_ in sorted(model0.all_prefixes())[:3]:
                    base.expand_pair(p_, "1"), base.expand_pair_all(p_, "1"), base.get_record(p_)
                objs = {"shallow": _copy.copy(base), "deep": _copy.deepcopy(base), "pickled": _pickle.loads(_pickle.dumps(base))}
                for k_, (name_, o_) in enumerate(objs.items()):
                    o_.add_record(Record(prefix=f"zc{k_}", uri_prefix=recs[0].uri_prefix), merge=True)
                    o_.add_prefix(f"zd{k_}", f"zd{k_}/")
                prefixes = prefixes + [f"z{c}{k_}" for c in "cd" for k_ in range(3)]
                for name_, o_ in objs.items():
                    m_ = Model(model_of(o_).records, d)
                    for p_ in prefixes:
                        check_pair(o_, m_, p_, "1", fails, where + f" ({name_} copy, compared with its own records list)")
                        if d not in p_:
                            check_string(o_, m_, p_ + d + "1", fails, where + f" ({name_} copy, compared with its own records list)")
                conv = base
                model = Model(model_of(base).records, d)
            elif mode == "shared-list":
                from ..impl import build_shared_list, model_of

                conv = build_shared_list(recs, d)
                model = Model(model_of(conv).records, d)   # the converter answers for what its own records list says
                prefixes = sorted(model.all_prefixes()) + UNREG + ["zz6", "zz7", "zz8", "zz8s"]
            elif mode == "loader":
                # the same converter through a loader, the delimiter passed as keyword argument
                if any(r.psyn for r in recs):
                    conv = Converter.from_extended_prefix_map([{"prefix": r.prefix, "uri_prefix": r.uri_prefix, "prefix_synonyms": list(r.psyn), "uri_prefix_synonyms": list(r.usyn)} for r in recs], delimiter=d)
                elif any(r.usyn for r in recs):
                    conv = Converter.from_priority_prefix_map({r.prefix: [r.uri_prefix, *r.usyn] for r in recs}, delimiter=d)
                else:
                    conv = Converter.from_reverse_prefix_map({r.uri_prefix: r.prefix for r in recs}, delimiter=d)
                    c2 = Converter.from_prefix_map({r.prefix: r.uri_prefix for r in recs}, delimiter=d)
                    if canon(c2) != canon(conv):
                        fails.append(("C02/loaders-disagree", f"{where}: from_prefix_map and from_reverse_prefix_map give different converters"))
            else:
                conv = build_variant(recs, d, mode, probe)
        except Exception as e:  # noqa
            fails.append(("C02/construction-raises/" + mode, f"{where}: {type(e).__name__}: {e}"))
            continue
        fails.extend(step[:2])
        if ctx is not None:
            ctx.state(hash(canon(conv)))
            ctx.count("transitions", 1 if mode == "ctor" else len(recs) + sum(len(r.psyn) + len(r.usyn) for r in recs))
        n = 0
        for p in prefixes:
            for i in ids:
                check_pair(conv, model, p, i, fails, where)
                if d not in p:
                    check_string(conv, model, p + d + i, fails, where)
                n += 1
        for s in sweepQ or short_strings(d, b["string_len"]):
            check_string(conv, model, s, fails, where)
            n += 1
        if ctx is not None:
            ctx.count("evaluations", n * 5)
            ctx.count("validated")
            if mode == "ctor":
                ctx.count("configurations")
                if any(r.psyn for r in recs):
                    ctx.count("configs_with_prefix_synonyms")
                    ctx.distinct(hash(canon(conv)))
                if any(r.usyn for r in recs):
                    ctx.count("configs_with_uri_synonyms")
                if any("" in r.prefixes for r in recs):
                    ctx.count("configs_with_empty_prefix")
        if not fails and mode == "ctor" and d == ":":
            # converters derived from this one are separate objects: what they learn later stays unknown here
            for label, derive in (("chain([c])", lambda c: curies.chain([c])), ("get_subconverter(all)", lambda c: c.get_subconverter(sorted(model.all_prefixes())))):
                try:
                    derived = derive(conv)
                    derived.add_prefix("late", "late/", prefix_synonyms=["late2"])
                    if recs:
                        derived.add_prefix(recs[0].prefix, "late3/", merge=True)
                except ValueError:
                    continue
                for p in ("late", "late2"):
                    check_pair(conv, model, p, "1", fails, where + f" after {label} learnt new prefixes")
                    check_string(conv, model, p + d + "1", fails, where + f" after {label} learnt new prefixes")
                for r in recs[:1]:
                    check_pair(conv, model, r.prefix, "1", fails, where + f" after {label} learnt new prefixes")
        if fails:
            break
    return fails


def run_unit(unit, ctx):
    if unit.get("kind") == "sweep":
        for case in unit["cases"]:
            case = dict(case, tier=unit["tier"])
            fails = run_case(case, ctx)
            ctx.count("sweep_cases")
            for sig, msg in fails[:2]:
                ctx.violation(sig, msg, case)
        return
    for recs in unit["shapes"]:
        for d in DELIMS:
            case = {"recs": recs, "delim": d, "tier": unit["tier"]}
            fails = run_case(case, ctx)
            if len(recs) >= 2:
                ctx.sample(case)
            for sig, msg in fails[:2]:
                ctx.violation(sig, msg, case)


def replay(case):
    return run_case(case, None)


def describe(tier):
    return {
        "level": "model_checking",
        "rule": "all sets of <= max_prefixes CURIE strings from {'',a,A,b,ab} x partitions into <=3 records x canonical choices x 0..2 "
        "URI synonyms per record x 3 delimiters x 4 construction modes (constructor; a loader with the delimiter as keyword; synonyms arriving late by merge; a history with rejected additions and a merge matched "
        "through a synonym, probed between the steps); queries: (registered + 4 unregistered prefixes) x 13 "
        "identifiers through 6 entry points, plus all strings up to string_len over {a,A,b,1,delimiter chars}; "
        "distinct_nontrivial = distinct converter states with at least one CURIE-prefix synonym",
        "bounds": bounds(tier),
        "exhaustive": True,
        "assumptions": ["CURIE prefixes do not contain the delimiter (as the property quantifies)", "a ValueError raised by a non-strict call is read as 'no result' here; how failure is reported is C08's subject"],
    }


def required_counters(tier):
    return ["configurations", "configs_with_prefix_synonyms", "configs_with_uri_synonyms", "configs_with_empty_prefix", "validated"]
