"""C18 - the mapping service returns exactly the equivalent URIs, in the requested format.

(a) Every combination of converter x URI x binding direction x VALUES placement x predicate is evaluated on the graph
directly, through Flask GET and POST and through FastAPI GET (in-process clients); after the query sweep the live
converter gains a URI-prefix synonym and the service is queried again (observe - mutate - observe).
(b) Every Accept header of 1..3 elements over 10 media types x 6 q-values (one with two decimals, one 1.0) x all placements of optional whitespace is fed
to handle_header and compared with a reference negotiation written per RFC 7231; a subset goes through the web clients.
"""

from __future__ import annotations

import itertools as it
import json

from ..engine import chunks
from ..impl import Converter, curies, to_record
from ..refmodel import Model, mrec

PROP = "C18"

CONVERTERS = [
    [mrec("CHEBI", "http://p/CHEBI_", [], ["http://id/chebi/", "http://e/?id="]), mrec("GO", "http://p/GO_"), mrec("OBO", "http://p/")],
    [mrec("a", "x:/a/", [], ["x:/a/b_"]), mrec("b", "x:/a/b", [], ["y:/b#"])],
    [mrec("solo", "http://solo/")],
    [mrec("m", "http://long/common/m/", ["mm"], ["http://long/common/m#", "urn:m:"]), mrec("n", "http://long/common/n/", [], ["http://long/common/"])],
    [mrec("gr", "http://p/α/", [], ["http://é.example/ß_", "http://id/gr/"]), mrec("zh", "http://中/")],   # valid IRIs beyond ASCII
    [mrec("", "http://default/", ["dflt"], ["http://default2#"]), mrec("o", "http://other/")],             # the empty (default) CURIE prefix
    # well-known vocabulary namespaces registered under other spellings of their usual prefixes
    [mrec("OWL", "http://www.w3.org/2002/07/owl#", ["Owl"]), mrec("RDFS", "http://www.w3.org/2000/01/rdf-schema#"), mrec("xsd2", "http://www.w3.org/2001/XMLSchema#"),
     mrec("x", "http://x/", [], ["http://x2/"])],
    # served from a subclass using the documented standardize_identifier hook (index in HOOKED): expand_all(compress(u)) applies it
    [mrec("hk", "http://hk/", ["HK"], ["http://hk2/", "http://hk/sub_"]), mrec("z", "http://z/")],
]
HOOKED = {7}


def model_for(ci):
    if ci in HOOKED:
        from ..impl import ident_hook

        return Model(CONVERTERS[ci], ":", hook=ident_hook)
    return Model(CONVERTERS[ci], ":")
OWL_SAMEAS = "http://www.w3.org/2002/07/owl#sameAs"
OTHER_PRED = "http://www.w3.org/2000/01/rdf-schema#seeAlso"
INVALID = set('<>" {}|\\^`')


def uris_for(model):
    out = []
    for u in sorted(model.all_uri_prefixes()):
        out += [u + "1", u, u + "x/y", u[:-1], u + "a%3Ab", u + "%20z%25"]   # the last two: percent-encoded octets stay as they are
        if model.hook is not None:
            out += [u + "X1", u + "bad", u + "y", u + "XX2", u + "X", u + "b:1"]    # identifiers the hook rewrites or rejects
    # tails by which one registered URI prefix extends another, transplanted behind every URI prefix (a rendering of such a
    # URI under a sibling prefix then falls under the longer, foreign prefix)
    ups = sorted(model.all_uri_prefixes())
    tails = sorted({q[len(p_):] for p_ in ups for q in ups if q != p_ and q.startswith(p_)})
    out += [p_ + t + "1" for p_ in ups for t in tails]
    out += ["http://nope/1", "urn:zzz"]
    seen, res = set(), []
    for u in out:
        if u and u not in seen and not (set(u) & INVALID):
            seen.add(u)
            res.append(u)
    return res


def sparql(u, direction, placement, pred):
    """placement: inside / after (VALUES block inside or after WHERE), optionally '+filter' (a FILTER that is always
    true next to the triple pattern) or '+distinct'."""
    bound, free = ("s", "o") if direction == "s" else ("o", "s")
    values = f"VALUES ?{bound} {{ <{u}> }}"
    pattern = f"?s <{pred}> ?o"
    where, _, extra = placement.partition("+")
    select = "SELECT DISTINCT ?s ?o" if extra == "distinct" else "SELECT ?s ?o"
    if extra == "filter":
        pattern += f" FILTER(isIRI(?{free}))"
    ns, _, local = pred.rpartition("#")
    if extra == "prefixed" and pred == OWL_SAMEAS:
        pattern = "?s owl:sameAs ?o"                               # the documented query shape: no PREFIX declaration
    elif extra == "compact-prologue":
        select = f"PREFIX pp:<{ns}#> BASE<http://base/> " + select   # no white space is required inside a prologue
        pattern = f"?s pp:{local} ?o"
    elif extra == "comment":
        select = "# a comment line\n" + select
    elif extra == "lowercase":
        select = select.replace("SELECT", "select")
    elif extra == "varnames":
        # variables named like prefixes rdflib binds by default (a variable name is just a name)
        out_ = (f"{select} WHERE {{ {values} {pattern} }}" if where == "inside" else f"{select} WHERE {{ {pattern} }} {values}")
        return out_.replace("?s", "?\x00").replace("?o", "?org").replace("?\x00", "?owl")
    if where == "inside":
        return f"{select} WHERE {{ {values} {pattern} }}"
    if where == "insideafter":   # inside the group, but written after the triple pattern
        return f"{select} WHERE {{ {pattern} . {values} }}"
    return f"{select} WHERE {{ {pattern} }} {values}"


def expected(model, u, pred):
    if pred != OWL_SAMEAS:
        return set()
    hit = model.longest(u)
    if hit is None:
        return set()
    r, up = hit
    ident = u[len(up):]
    if model.hook is not None:      # the oracle spelled out: expand_all(compress(u))
        both = model.expand_all(model.compress(u))
        if both is None:
            return set()
        return {x for x in [both[0]] + list(both[1]) if not (set(x) & INVALID)}
    return {x + ident for x in r.uri_prefixes if not (set(x + ident) & INVALID)}


_SERVICES = {}


def service(ci):
    if ci not in _SERVICES:
        from curies.mapping_service import MappingServiceGraph, MappingServiceSPARQLProcessor, get_fastapi_mapping_app, get_flask_mapping_app
        from starlette.testclient import TestClient

        if ci in HOOKED:
            from ..impl import HookedConverter

            conv = HookedConverter([to_record(r) for r in CONVERTERS[ci]])
        else:
            conv = Converter([to_record(r) for r in CONVERTERS[ci]])
        graph = MappingServiceGraph(converter=conv)
        proc = MappingServiceSPARQLProcessor(graph=graph)
        flask_client = get_flask_mapping_app(conv).test_client()
        try:
            fast_client = TestClient(get_fastapi_mapping_app(conv))
        except Exception:  # noqa  (python-multipart stub unavailable)
            fast_client = None
        _SERVICES[ci] = (conv, graph, proc, flask_client, fast_client)
    return _SERVICES[ci]


def bindings_from_json(text, free):
    data = json.loads(text)
    return {b[free]["value"] for b in data["results"]["bindings"]}, len(data["results"]["bindings"])


def ask(ci, transport, query, free):
    conv, graph, proc, flask_client, fast_client = service(ci)
    if "?owl" in query:
        free = {"s": "owl", "o": "org"}[free]
    if transport == "graph":
        rows = list(graph.query(query, processor=proc))
        return {str(getattr(r, free)) for r in rows}, len(rows)
    if transport == "graph-prepared":
        # the query handed in as a prepared Query object instead of text
        from rdflib.plugins.sparql import prepareQuery

        rows = list(graph.query(prepareQuery(query), processor=proc))
        return {str(getattr(r, free)) for r in rows}, len(rows)
    if transport == "flask-get":
        r = flask_client.get("/sparql", query_string={"query": query}, headers={"accept": "application/json"})
    elif transport == "flask-post":
        r = flask_client.post("/sparql", data={"query": query}, headers={"accept": "application/json"})
    elif transport == "flask-post-charset":   # the form content type may carry a charset parameter
        from urllib.parse import urlencode

        r = flask_client.post("/sparql", data=urlencode({"query": query}), headers={"accept": "application/json", "Content-Type": "application/x-www-form-urlencoded; charset=UTF-8"})
    elif transport == "flask-post-multipart":
        r = flask_client.post("/sparql", data={"query": query}, headers={"accept": "application/json"}, content_type="multipart/form-data")
    elif transport == "fastapi-get":
        if fast_client is None:
            return None, 0
        r = fast_client.get("/sparql", params={"query": query}, headers={"accept": "application/json"})
    if r.status_code != 200:
        raise RuntimeError(f"{transport} status {r.status_code}")
    text = r.get_data(as_text=True) if hasattr(r, "get_data") else r.text
    return bindings_from_json(text, free)


TRANSPORTS = ["graph", "graph-prepared", "flask-get", "flask-post", "flask-post-charset", "flask-post-multipart", "fastapi-get"]


def check_query(ci, u, direction, placement, pred, model=None, ctx=None):
    fails = []
    model = model or model_for(ci)
    free = "o" if direction == "s" else "s"
    want = expected(model, u, pred)
    q = sparql(u, direction, placement, pred)
    where = f"converter {ci}: {q}"
    answers = {}
    for t in TRANSPORTS:
        try:
            got, nrows = ask(ci, t, q, free)
        except Exception as e:  # noqa
            fails.append((f"sparql/{t}/raises", f"{where}: {type(e).__name__}: {str(e)[:100]}"))
            continue
        if got is None:
            continue
        answers[t] = got
        if ctx is not None:
            ctx.count("transitions")
            ctx.count("evaluations")
            ctx.count("requests_" + t)
        if got != want:
            if not want:
                kind = "answers-for-unrecognised-uri-or-other-predicate"
            elif not got:
                kind = f"no-answer/{placement.partition('+')[0]}-VALUES" + ("-with-" + placement.partition("+")[2] if "+" in placement else "")
            elif got < want:
                kind = "equivalent-uri-missing"
            else:
                kind = "non-equivalent-uri-returned"
            fails.append((f"sparql/{t}/{kind}", f"{where}: {t} returned {sorted(got)}, expected {sorted(want)}"))
        elif nrows != len(want):
            fails.append((f"sparql/{t}/duplicate-rows", f"{where}: {nrows} rows for {len(want)} equivalents"))
    if len({frozenset(v) for v in answers.values()}) > 1:
        fails.append(("sparql/transports-disagree", f"{where}: { {k: sorted(v) for k, v in answers.items()} }"))
    if ctx is not None:
        if not fails:
            ctx.count("validated")
        if len(want) >= 2:
            ctx.count("queries_with_synonym_renderings")
            ctx.distinct(hash((ci, u, direction, placement)))
        if not want:
            ctx.count("queries_expecting_nothing")
    return fails


def check_after_mutation(ci, ctx=None):
    """The service answers from the live converter: a synonym gained after earlier queries must appear."""
    fails = []
    conv, graph, proc, flask_client, fast_client = service(ci)
    r0 = CONVERTERS[ci][0]
    for step, new in enumerate(["http://gained/", "http://gained2#"]):
        u = r0.uri_prefix + "7"
        # observe first (plants whatever the service may cache) ...
        for t in ("graph", "flask-get"):
            try:
                ask(ci, t, sparql(u, "s", "inside", OWL_SAMEAS), "o")
            except Exception as e:  # noqa
                return [(f"sparql/{t}/raises", f"converter {ci}: {type(e).__name__}: {str(e)[:100]}")]
        # ... mutate the live converter ...
        conv.add_prefix(r0.prefix, new, merge=True)
        from ..impl import model_of

        model = model_of(conv)
        # ... observe again
        for uu in (u, new + "7"):
            for direction in ("s", "o"):
                f = check_query(ci, uu, direction, "inside", OWL_SAMEAS, model=model, ctx=ctx)
                fails += [(s.replace("sparql/", "sparql-after-converter-gained-synonym/"), m) for s, m in f]
        if ctx is not None:
            ctx.count("mutations_between_queries")
    _SERVICES.pop(ci, None)  # later cases start from a fresh service
    return fails


# ---- content negotiation -----------------------------------------------------------------------------------------
SUPPORTED = ["application/sparql-results+json", "application/sparql-results+xml", "application/sparql-results+csv"]
SYN = {"application/json": SUPPORTED[0], "text/json": SUPPORTED[0], "application/xml": SUPPORTED[1], "text/xml": SUPPORTED[1], "text/csv": SUPPORTED[2]}
TYPES = SUPPORTED + list(SYN) + ["text/html", "*/*"]
QS = [None, "0.1", "0.5", "0.55", "0.9", "1.0"]
DEFAULT = SUPPORTED[1]


def render(elements, ows, param=None):
    """elements: [(type, q)]; ows = (after comma, before semicolon, after semicolon) each '' or ' ';
    param: optional media-type parameter written before the weight of every element (RFC 7231: parameters precede q)."""
    parts = []
    which = "all"
    if param is not None and "@" in param:      # "charset=utf-8@first": the parameter is written on the first (resp. last) element only
        param, which = param.split("@")
    for k_, (t, q) in enumerate(elements):
        here = param is not None and (which == "all" or (which == "first" and k_ == 0) or (which == "last" and k_ == len(elements) - 1))
        mt = t if not here else f"{t}{ows[1]};{ows[2]}{param}"
        parts.append(mt if q is None else f"{mt}{ows[1]};{ows[2]}q={q}")
    return ("," + ows[0]).join(parts)


def reference_negotiation(header):
    """RFC 7231 section 5.3.2: media-range *( OWS ';' OWS parameter ), weight 'q='; elements separated by OWS ',' OWS."""
    best = {}
    for element in header.split(","):
        pieces = [p.strip(" \t") for p in element.split(";")]
        mt = pieces[0].lower()      # type, subtype and parameter names are case-insensitive (RFC 7231 3.1.1.1)
        q = 1.0
        for p in pieces[1:]:
            if p[:2].lower() == "q=":
                q = float(p[2:])
        canon = SYN.get(mt, mt)
        if canon in SUPPORTED:
            best[canon] = max(best.get(canon, 0.0), q)
    if not best:
        return {DEFAULT}
    top = max(best.values())
    return {t for t, q in best.items() if q == top}


def check_header(elements, ows, param=None, case=None):
    from curies.mapping_service.utils import handle_header

    header = render(elements, ows, param)
    if case == "upper":
        header = header.upper()
    elif case == "title":
        header = header.title()
    allowed = reference_negotiation(header)
    try:
        got = handle_header(header)
    except Exception as e:  # noqa
        return [(f"accept/handle_header-raises/{type(e).__name__}", f"Accept: {header!r}: {e}")], header
    if got not in allowed:
        if any(o for o in ows) and handle_header(render(elements, ("", "", ""))) in allowed:
            kind = "optional-whitespace-changes-the-result"
        elif got == DEFAULT and DEFAULT not in allowed:
            kind = "falls-back-to-default-although-a-supported-type-is-listed"
        else:
            kind = "not-the-highest-q-supported-type"
        return [(f"accept/{kind}", f"Accept: {header!r} -> {got!r}, acceptable {sorted(allowed)}")], header
    return [], header


def header_elements(n):
    kinds = [(t, q) for t in TYPES for q in QS]
    for combo in it.product(kinds, repeat=n):
        if len({t for t, _ in combo}) < n:
            continue  # the same media type listed twice is ambiguous (a type plus its synonym is allowed)
        yield combo


OWS_PATTERNS = list(it.product(("", " "), repeat=3))


def check_header_via_web(header):
    fails = []
    from curies.mapping_service.utils import handle_header

    conv, graph, proc, flask_client, fast_client = service(2)
    allowed = reference_negotiation(header)
    q = sparql("http://solo/1", "s", "inside", OWL_SAMEAS)
    r = flask_client.get("/sparql", query_string={"query": q}, headers={"accept": header})
    ct = (r.headers.get("Content-Type") or "").split(";")[0].strip()
    if ct not in allowed:
        fails.append(("accept/flask-content-type-differs", f"Accept: {header!r}: Content-Type {ct!r}, acceptable {sorted(allowed)}"))
    if fast_client is not None:
        r = fast_client.get("/sparql", params={"query": q}, headers={"accept": header})
        ct = (r.headers.get("content-type") or "").split(";")[0].strip()
        if ct not in allowed:
            fails.append(("accept/fastapi-content-type-differs", f"Accept: {header!r}: Content-Type {ct!r}, acceptable {sorted(allowed)}"))
    return fails


def _asgi_get(app, path, query_string, headers):
    import asyncio

    out = {}
    scope = {"type": "http", "asgi": {"version": "3.0"}, "http_version": "1.1", "method": "GET", "scheme": "http", "path": path, "raw_path": path.encode(),
             "query_string": query_string, "headers": [(b"host", b"testserver")] + list(headers), "client": ("testclient", 50000), "server": ("testserver", 80), "root_path": ""}

    async def receive():
        return {"type": "http.request", "body": b"", "more_body": False}

    async def send(msg):
        if msg["type"] == "http.response.start":
            out["status"] = msg["status"]
            out["headers"] = {k.decode().lower(): v.decode() for k, v in msg["headers"]}

    asyncio.run(app(scope, receive, send))
    return out["status"], (out["headers"].get("content-type") or "").split(";")[0].strip()


QUOTED_HEADERS = [
    ('text/html;q=0.2, application/xml;q=0.3, text/csv;profile="http://example.org/p?cols=1,2";q=0.1', SUPPORTED[1]),
    ('application/json;q=0.9, text/csv;x=",";q=0.5', SUPPORTED[0]),
    ('application/json;x="a;q=0.1";q=0.9, text/csv;q=0.5', SUPPORTED[0]),
]


def check_quoted_parameters():
    """RFC 7231 allows quoted-string parameter values; a ',' or ';' inside the quotes separates nothing.  handle_header splits
    the header text at every ',' and ';' - a listed finding (known_findings.json) with its own unit and signature."""
    from curies.mapping_service.utils import handle_header

    fails = []
    for header, want in QUOTED_HEADERS:
        try:
            got = handle_header(header)
        except Exception as e:  # noqa
            got = f"raised {type(e).__name__}"
        if got != want:
            fails.append(("accept/quoted-parameter-value-with-separator/split-inside-quotes", f"Accept: {header!r} -> {got!r}, expected {want!r}"))
            break
    return fails


def check_no_accept_header():
    """A request without any Accept header gets the default (SPARQL XML) from both frameworks."""
    import asyncio
    from urllib.parse import urlencode

    fails = []
    conv, graph, proc, flask_client, fast_client = service(2)
    q = sparql("http://solo/1", "s", "inside", OWL_SAMEAS)
    r = flask_client.get("/sparql", query_string={"query": q})
    got = (r.status_code, (r.headers.get("Content-Type") or "").split(";")[0].strip())
    if got != (200, DEFAULT):
        fails.append(("accept/no-header/flask", f"GET /sparql without Accept header: {got}, expected (200, {DEFAULT!r})"))
    # the Accept header sent as two field lines is the same header as the comma-joined one (RFC 7230 3.2.2)
    for fields in (["text/html", "application/json;q=0.9"], ["text/csv;q=0.2", "application/sparql-results+json"], ["application/xml;q=0.1", "text/csv"]):
        want = reference_negotiation(", ".join(fields))
        r = flask_client.get("/sparql", query_string={"query": q}, headers=[("Accept", f_) for f_ in fields])
        ct = (r.headers.get("Content-Type") or "").split(";")[0].strip()
        if ct not in want:
            fails.append(("accept/several-field-lines/flask", f"Accept sent as the field lines {fields}: Content-Type {ct!r}, acceptable {sorted(want)}"))
        if fast_client is not None:
            ct = _asgi_get(fast_client.app, "/sparql", urlencode({"query": q}).encode(), [(b"accept", f_.encode()) for f_ in fields])[1]
            if ct not in want:
                fails.append(("accept/several-field-lines/fastapi", f"Accept sent as the field lines {fields}: Content-Type {ct!r}, acceptable {sorted(want)}"))
    if fast_client is not None:
        out = {}
        scope = {"type": "http", "asgi": {"version": "3.0"}, "http_version": "1.1", "method": "GET", "scheme": "http", "path": "/sparql", "raw_path": b"/sparql",
                 "query_string": urlencode({"query": q}).encode(), "headers": [(b"host", b"testserver")], "client": ("testclient", 50000), "server": ("testserver", 80), "root_path": ""}

        async def receive():
            return {"type": "http.request", "body": b"", "more_body": False}

        async def send(msg):
            if msg["type"] == "http.response.start":
                out["status"] = msg["status"]
                out["headers"] = {k.decode().lower(): v.decode() for k, v in msg["headers"]}

        asyncio.run(fast_client.app(scope, receive, send))
        got = (out["status"], (out["headers"].get("content-type") or "").split(";")[0].strip())
        if got != (200, DEFAULT):
            fails.append(("accept/no-header/fastapi", f"GET /sparql without Accept header: {got}, expected (200, {DEFAULT!r})"))
    return fails


SKOS = "http://www.w3.org/2004/02/skos/core#exactMatch"


def check_predicates(ctx=None):
    """A graph configured with explicit predicates answers over exactly those (owl:sameAs only when configured)."""
    from curies.mapping_service import MappingServiceGraph, MappingServiceSPARQLProcessor

    fails = []
    model = Model(CONVERTERS[0], ":")
    u = "http://p/CHEBI_1"
    for config, configured in ((None, {OWL_SAMEAS}), (SKOS, {SKOS}), ([SKOS], {SKOS}), ([SKOS, OTHER_PRED], {SKOS, OTHER_PRED}), ([OWL_SAMEAS, SKOS], {OWL_SAMEAS, SKOS}), (OWL_SAMEAS, {OWL_SAMEAS})):
        conv = Converter([to_record(r) for r in CONVERTERS[0]])
        graph = MappingServiceGraph(converter=conv, predicates=config)
        proc = MappingServiceSPARQLProcessor(graph=graph)
        for pred in (OWL_SAMEAS, SKOS, OTHER_PRED):
            for direction in ("s", "o"):
                for placement in ("inside", "after"):
                    free = "o" if direction == "s" else "s"
                    q = sparql(u, direction, placement, pred)
                    rows_ = list(graph.query(q, processor=proc))
                    got = {str(getattr(r, free)) for r in rows_}
                    want = expected(model, u, OWL_SAMEAS) if pred in configured else set()
                    if got == want and len(rows_) != len(want):
                        fails.append(("sparql/graph/duplicate-rows", f"graph configured with predicates={config!r}: {q} -> {len(rows_)} rows for {len(want)} equivalents (a SPARQL answer is a multiset)"))
                    if ctx is not None:
                        ctx.count("transitions")
                        ctx.count("predicate_configurations")
                    if got != want:
                        kind = "answers-over-a-predicate-that-is-not-configured" if not want else "no-answer-over-a-configured-predicate"
                        fails.append((f"sparql/{kind}", f"graph configured with predicates={config!r}: {q} -> {sorted(got)}, expected {sorted(want)}"))
    # the configured predicates are the graph's own: collections handed in (or handed out) may change afterwards
    import rdflib

    for kind_ in ("set-of-URIRef", "list", "set-of-str"):
        mine = {"set-of-URIRef": {rdflib.URIRef(OWL_SAMEAS)}, "list": [OWL_SAMEAS], "set-of-str": {OWL_SAMEAS}}[kind_]
        conv = Converter([to_record(r) for r in CONVERTERS[0]])
        g1 = MappingServiceGraph(converter=conv, predicates=mine)
        g2 = MappingServiceGraph(converter=conv, predicates=g1.query_predicates)
        try:
            g2.query_predicates.add(rdflib.URIRef(SKOS))
        except AttributeError:
            pass
        if isinstance(mine, set):
            mine.add(rdflib.URIRef(OTHER_PRED) if kind_ == "set-of-URIRef" else OTHER_PRED)
        else:
            mine.append(OTHER_PRED)
        for step in ("after-additions", "after-clear"):
            if step == "after-clear":
                mine.clear()
            for pred in (OWL_SAMEAS, SKOS, OTHER_PRED):
                q = sparql(u, "s", "after", pred)
                got = {str(r.o) for r in g1.query(q, processor=MappingServiceSPARQLProcessor(graph=g1))}
                want = expected(model, u, OWL_SAMEAS) if pred == OWL_SAMEAS else set()
                if ctx is not None:
                    ctx.count("transitions")
                    ctx.count("predicate_aliasing_checks")
                if got != want:
                    fails.append(("sparql/configured-predicates-follow-a-collection-changed-later", f"graph built from a {kind_} that was changed later ({step}): {q} -> {sorted(got)}, expected {sorted(want)}"))
    return fails


def check_query_kwargs(ci, ctx=None):
    """The documented entry point is Graph.query: the same query text may be asked again on the same graph / processor with other
    initNs (the prefixed name in VALUES then denotes another URI) or with the variable bound through initBindings."""
    import rdflib

    fails = []
    conv, graph, proc, _, _ = service(ci)
    model = model_for(ci)
    ups = [u for u in sorted(model.all_uri_prefixes()) if not (set(u) & INVALID)][:4]
    for bound, free in (("s", "o"), ("o", "s")):
        # (the predicate is written as an IRI: binding a second prefix to the owl namespace would, in rdflib, unbind "owl")
        text = f"SELECT ?s ?o WHERE {{ VALUES ?{bound} {{ src:1 }} ?s <{OWL_SAMEAS}> ?o }}"
        plain = f"SELECT ?s ?o WHERE {{ ?s <{OWL_SAMEAS}> ?o }}"
        for a, b in it.permutations(ups, 2):
            for up in (a, b, a):
                want = expected(model, up + "1", OWL_SAMEAS)
                for label, run in (("initNs", lambda: graph.query(text, processor=proc, initNs={"src": rdflib.Namespace(up)})),
                                   ("initBindings", lambda: graph.query(plain, processor=proc, initBindings={bound: rdflib.URIRef(up + "1")}))):
                    try:
                        got = {str(getattr(r, free)) for r in run()}
                    except Exception as e:  # noqa
                        fails.append((f"sparql/graph-{label}/raises", f"converter {ci}: {text if label == 'initNs' else plain} with {label} for {up + '1'!r}: {type(e).__name__}: {str(e)[:80]}"))
                        continue
                    if ctx is not None:
                        ctx.count("transitions")
                        ctx.count("queries_with_keyword_arguments")
                    if got != want:
                        fails.append((f"sparql/graph-{label}/answer-differs", f"converter {ci}: {text if label == 'initNs' else plain} with {label} for {up + '1'!r} (asked after the same text for another URI): {sorted(got)}, expected {sorted(want)}"))
            if fails:
                return fails
    return fails


def units(tier, seed):
    us = [{"kind": "predicates"}]
    us += [{"kind": "kwargs", "conv": ci} for ci in range(len(CONVERTERS))]
    for ci in range(len(CONVERTERS)):
        U = uris_for(model_for(ci))
        for ch in chunks(U, 4):
            us.append({"kind": "sparql", "conv": ci, "uris": ch})
        us.append({"kind": "mutate", "conv": ci})
    kinds = [(t, q) for t in TYPES for q in QS]
    us.append({"kind": "accept", "n": 1, "first": list(range(len(kinds)))})
    us.append({"kind": "accept", "n": 2, "first": list(range(len(kinds)))})
    for ch in chunks(list(range(len(kinds))), 40):
        us.append({"kind": "accept", "n": 3, "first": ch})
    if tier == "thorough":
        for i in range(len(TYPES)):
            us.append({"kind": "accept4", "first": i})
    us.append({"kind": "accept-web"})
    us.append({"kind": "accept-dup"})
    us.append({"kind": "accept-quoted"})
    us.append({"kind": "accept-misc"})
    return us


def run_unit(unit, ctx):
    k = unit["kind"]
    if k == "sparql":
        ci = unit["conv"]
        ctx.state(hash(("svc", ci)))
        for u in unit["uris"]:
            for direction in ("s", "o"):
                for placement in ("inside", "after", "insideafter", "inside+filter", "after+filter", "after+distinct", "after+prefixed", "inside+compact-prologue", "after+comment", "inside+lowercase", "inside+varnames", "after+varnames"):
                    for pred in (OWL_SAMEAS, OTHER_PRED):
                        fails = check_query(ci, u, direction, placement, pred, ctx=ctx)
                        case = {"kind": "sparql", "conv": ci, "uri": u, "direction": direction, "placement": placement, "pred": pred}
                        for sig, msg in fails[:2]:
                            ctx.violation("C18/" + sig, msg, case)
        ctx.sample({"kind": "sparql", "conv": ci, "query": sparql(unit["uris"][0], "s", "after", OWL_SAMEAS)})
    elif k == "kwargs":
        for sig, msg in check_query_kwargs(unit["conv"], ctx)[:2]:
            ctx.violation("C18/" + sig, msg, {"kind": "kwargs", "conv": unit["conv"]})
    elif k == "predicates":
        for sig, msg in check_predicates(ctx)[:2]:
            ctx.violation("C18/" + sig, msg, {"kind": "predicates"})
    elif k == "mutate":
        fails = check_after_mutation(unit["conv"], ctx)
        for sig, msg in fails[:2]:
            ctx.violation("C18/" + sig, msg, {"kind": "mutate", "conv": unit["conv"]})
    elif k == "accept":
        kinds = [(t, q) for t in TYPES for q in QS]
        n = unit["n"]
        for i in unit["first"]:
            for rest in it.product(kinds, repeat=n - 1):
                combo = (kinds[i],) + rest
                if len({t for t, _ in combo}) < n:
                    continue
                for ows in OWS_PATTERNS:
                    if n == 1 and ows[0]:
                        continue
                    fails, header = check_header(combo, ows)
                    if n <= 2 and not fails:
                        # media-type parameters precede the weight (RFC 7231 5.3.2): they must not hide it
                        for prm in ("charset=utf-8",) + (("charset=utf-8@first", "charset=utf-8@last") if n == 2 else ()):
                            f2, h2 = check_header(combo, ows, prm)
                            ctx.count("headers_with_media_type_parameter")
                            if f2:
                                ctx.violation("C18/" + f2[0][0].replace("accept/", "accept/with-media-type-parameter/"), f2[0][1], {"kind": "accept", "elements": [list(e) for e in combo], "ows": list(ows), "param": prm})
                    if n <= 2 and not fails:
                        # the same header written in upper case / title case (media types and the weight's name are case-insensitive)
                        for case in ("upper", "title"):
                            f3, h3 = check_header(combo, ows, None, case)
                            ctx.count("headers_in_other_letter_case")
                            if f3:
                                ctx.violation("C18/" + f3[0][0].replace("accept/", "accept/letter-case/"), f3[0][1], {"kind": "accept", "elements": [list(e) for e in combo], "ows": list(ows), "case": case})
                    ctx.count("headers")
                    ctx.count("evaluations")
                    ctx.state(hash(header))
                    if any(ows):
                        ctx.count("headers_with_optional_whitespace")
                    if len(reference_negotiation(header) & set(SUPPORTED)) and any(q for _, q in combo):
                        ctx.distinct(hash(header))
                    if fails:
                        for sig, msg in fails[:1]:
                            ctx.violation("C18/" + sig, msg, {"kind": "accept", "elements": [list(e) for e in combo], "ows": list(ows)})
                    else:
                        ctx.count("validated")
        ctx.sample({"kind": "accept", "header": render(((TYPES[8], None), (TYPES[3], "0.5")), (" ", "", ""))})
    elif k == "accept4":
        # thorough: all headers of 4 distinct media types x q in {absent, 0.5, 0.9} x 2 whitespace patterns
        kinds4 = [(t, q) for t in TYPES for q in (None, "0.5", "0.9")]
        t0 = TYPES[unit["first"]]
        for q0 in (None, "0.5", "0.9"):
            for rest in it.product(kinds4, repeat=3):
                combo = ((t0, q0),) + rest
                if len({t for t, _ in combo}) < 4:
                    continue
                for ows in (("", "", ""), (" ", " ", " ")):
                    fails, header = check_header(combo, ows)
                    ctx.count("headers")
                    ctx.count("headers_with_4_elements")
                    ctx.count("evaluations")
                    if fails:
                        ctx.violation("C18/" + fails[0][0], fails[0][1], {"kind": "accept", "elements": [list(e) for e in combo], "ows": list(ows)})
                    else:
                        ctx.count("validated")
    elif k == "accept-web":
        kinds = [(t, q) for t in TYPES for q in (None, "0.5")]
        n = 0
        for combo in it.product(kinds, repeat=2):
            if combo[0][0] == combo[1][0]:
                continue
            for ows in (("", "", ""), (" ", " ", " ")):
                n += 1
                if n % 3:
                    continue
                header = render(combo, ows)
                fails = check_header_via_web(header)
                ctx.count("headers_via_web")
                ctx.count("transitions")
                for sig, msg in fails[:1]:
                    ctx.violation("C18/" + sig, msg, {"kind": "accept-web", "header": header})
    elif k == "accept-quoted":
        ctx.count("headers", len(QUOTED_HEADERS))
        for sig, msg in check_quoted_parameters():
            ctx.violation("C18/" + sig, msg, {"kind": "accept-quoted"})
    elif k == "accept-dup":
        # a media type may be listed more than once (two joined field lines, a synonym next to its canonical name): its weight
        # is the highest one given
        qs3 = (None, "0.3", "0.8")
        for t1 in TYPES:
            for t2 in TYPES:
                if t1 == t2:
                    continue
                for q1, q2, q3 in it.product(qs3, repeat=3):
                    for combo in (((t1, q1), (t2, q2), (t1, q3)), ((t1, q1), (t1, q3), (t2, q2)), ((t2, q2), (t1, q1), (t1, q3))):
                        fails, header = check_header(combo, ("", "", ""))
                        ctx.count("headers")
                        ctx.count("headers_with_a_repeated_media_type")
                        ctx.count("evaluations")
                        if fails:
                            ctx.violation("C18/" + fails[0][0].replace("accept/", "accept/repeated-media-type/"), fails[0][1], {"kind": "accept-dup", "elements": [list(e) for e in combo], "ows": ["", "", ""]})
                        else:
                            ctx.count("validated")
    elif k == "accept-misc":
        from curies.mapping_service.utils import handle_header

        for h in (None, ""):
            if handle_header(h) != DEFAULT:
                ctx.violation("C18/accept/missing-header-does-not-default-to-xml", f"handle_header({h!r}) = {handle_header(h)!r}", {"kind": "accept-misc"})
        for sig, msg in check_no_accept_header():
            ctx.violation("C18/" + sig, msg, {"kind": "accept-misc"})
        ctx.count("headers")


def replay(case):
    k = case["kind"]
    if k == "sparql":
        f = check_query(case["conv"], case["uri"], case["direction"], case["placement"], case["pred"])
    elif k == "predicates":
        f = check_predicates()
    elif k == "mutate":
        _SERVICES.pop(case["conv"], None)
        f = check_after_mutation(case["conv"])
    elif k == "accept":
        f, _ = check_header(tuple(tuple(e) for e in case["elements"]), tuple(case["ows"]), case.get("param"), case.get("case"))
        if case.get("case"):
            f = [(s_.replace("accept/", "accept/letter-case/"), m_) for s_, m_ in f]
        if case.get("param"):
            f = [(s_.replace("accept/", "accept/with-media-type-parameter/"), m_) for s_, m_ in f]
    elif k == "kwargs":
        _SERVICES.pop(case["conv"], None)
        f = check_query_kwargs(case["conv"])
    elif k == "accept-quoted":
        f = check_quoted_parameters()
    elif k == "accept-dup":
        f, _ = check_header(tuple(tuple(e) for e in case["elements"]), tuple(case["ows"]))
        f = [(s_.replace("accept/", "accept/repeated-media-type/"), m_) for s_, m_ in f]
    elif k == "accept-web":
        f = check_header_via_web(case["header"])
    else:
        from curies.mapping_service.utils import handle_header

        f = [("accept/missing-header-does-not-default-to-xml", "")] if handle_header(None) != DEFAULT or handle_header("") != DEFAULT else []
        f += check_no_accept_header()
    return [("C18/" + s, m) for s, m in f]


def describe(tier):
    return {
        "level": "model_checking",
        "rule": "(a) 6 converters (empty CURIE prefix, non-ASCII IRIs, nested URI prefixes, URI synonyms nested inside other records' prefixes, CURIE synonyms) x every URI prefix "
        "followed by '1', '', 'x/y', two percent-encoded identifiers, and shortened by one character + 2 unrecognised URIs x ?s/?o bound x VALUES inside/after WHERE (plain, with a FILTER, with DISTINCT) x "
        "{owl:sameAs, other predicate} x {graph, Flask GET, Flask POST (plain, with charset parameter, multipart), FastAPI GET}; then twice: query, add a URI synonym to the live "
        "converter, query again; graphs configured with 6 explicit predicate sets x 3 queried predicates; (b) all Accept headers of 1..3 distinct media types from 3 supported + 5 synonyms + text/html + */* x q in "
        "{absent,0.1,0.5,0.9} x 8 optional-whitespace placements; 1/3 of the 2-element headers also through both web frameworks; "
        "one more converter served from a subclass overriding standardize_identifier (oracle expand_all(compress(u)) with the hook); "
        "distinct_nontrivial = queries with >= 2 equivalent renderings + headers whose winner is a supported type chosen by q",
        "bounds": {"accept_elements": 3, "media_types": len(TYPES), "q_values": QS},
        "exhaustive": True,
        "assumptions": ["URI prefixes are valid IRI text (as quantified)", "q=0 is outside the alphabet; the only media-type parameter exercised is charset=utf-8 written before the weight (1- and 2-element headers)",
                        "FastAPI POST cannot be exercised: python-multipart is not installed (a stub lets the router be constructed for GET)",
                        "ties between different supported types with equal q: any of them is accepted", "a header listing the very same media type twice is ambiguous and excluded"],
    }


def required_counters(tier):
    return ["validated", "headers", "headers_with_optional_whitespace", "headers_via_web", "headers_with_media_type_parameter", "predicate_configurations", "queries_with_synonym_renderings", "queries_expecting_nothing", "mutations_between_queries"] + ["requests_" + t for t in TRANSPORTS]
