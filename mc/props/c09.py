"""C09 - chain is a priority union of converters and get_subconverter a restriction.

All ordered pairs (thorough: and triples of 1-record converters) of the valid converters of <= 2 records over a 3x3
string alphabet with case variants, in both case modes, are chained on the real code in lock-step with the reference
fold; every converter of that universe and of the joint universe is restricted to every subset of a prefix alphabet.
"""

from __future__ import annotations

import copy
import itertools as it

from ..engine import chunks
from ..impl import Record, Converter, canon, curies, indexes, model_of, observe, rec_key, record_set, to_record, views
from ..refmodel import Model, mrec
from ..refmodel import chain as model_chain
from ..refmodel import subconverter as model_sub
from ..universe import recs_from_json, recs_to_json, subsets
from . import c04, joint

PROP = "C09"
chain = curies.chain

_UNIVERSE = None


def universe():
    """[] + the 81 one-record + 162 two-record valid converters over the C04 alphabet, + a few with patterns."""
    global _UNIVERSE
    if _UNIVERSE is None:
        recs, plain, dup = c04.record_alphabet()
        out = [[]] + [[r] for r in recs]
        out += [[a, b] for a, b in it.combinations(recs, 2) if Model([a, b]).valid()]
        out += [[mrec("a", "x", (), (), "^1$")], [mrec("A", "X", ("a",), (), "^2$")], [mrec("b", "xy", (), ("x",), "^3$"), mrec("a", "X")]]
        # case variants whose spellings differ in length (casefold: "ß" -> "ss", "ﬁ" -> "fi")
        out += [[mrec("ß", "u1")], [mrec("SS", "u2")], [mrec("ss", "u3", ("k",))], [mrec("k1", "http://ﬁ/")], [mrec("k2", "http://FI/")], [mrec("ß", "u4"), mrec("SS", "u5")], [mrec("k3", "u6", ("SS",))], [mrec("k4", "u7", ("ß",), ("http://ﬁ/x",))], [mrec("k5", "u8", (), ("http://FI/x",))]]
        # the two sides are separate name spaces: a string may be a CURIE prefix of one record and a URI prefix of another (or the same)
        out += [[mrec("x", "a")], [mrec("x", "x")], [mrec("a", "x", ("x",))], [mrec("b", "x", (), ("a",))], [mrec("a", "a", ("x",), ("b",))], [mrec("x", "b", ("b",), ("x",))]]
        # the empty string is a legal CURIE prefix (default namespace) and a legal URI prefix
        out += [[mrec("", "x")], [mrec("a", "")], [mrec("", "X", ("a",))], [mrec("b", "xy", ("",), ("",))], [mrec("", "")]]
        _UNIVERSE = out
    return _UNIVERSE


QP = ["a", "A", "b", "z"]
QU = ["x", "X", "xy", "xyz", "q"]
QS = [p + ":1" for p in QP] + [u + "1" for u in QU] + QU


def units(tier, seed):
    n = len(universe())
    us = [{"kind": "pairs", "first": ch} for ch in chunks(list(range(n)), 64)]
    if tier == "thorough":
        us += [{"kind": "triples", "first": ch} for ch in chunks(list(range(1, 82)), 81)]
    us += [{"kind": "sub-c04", "idx": ch} for ch in chunks(list(range(n)), 8)]
    ncfg = len(joint.configurations("quick" if tier == "quick" else "quick"))
    us += [{"kind": "sub-joint", "idx": ch, "tier": "quick"} for ch in chunks(list(range(ncfg)), 48)]
    sw = sweep_cases()
    us += [{"kind": "sweep", "cases": ch} for ch in chunks(sw, 16)]
    return us


def sweep_cases():
    """Breadth sweeps (mc/sweeps.py): tokens in every role of merging / bridging / near-miss chains, chains onto converters
    of n records, synonym lists with repetitions and large parents for get_subconverter."""
    from .. import sweeps

    J = recs_to_json
    out = []
    for t in sweeps.TOKENS:
        tp = "" if ":" in t else t
        a, b = [mrec("p" + tp, "u" + t + "/", ["q" + tp], ["v" + t])], [mrec("r", "w" + t + "/", ["r" + tp + "2"])]
        bridge = [mrec("c9", "z9/", ["q" + tp], ["w" + t + "/"])]
        merge = [mrec("q" + tp, "m" + t + "/", ["n" + tp])]
        for cs in (True, False):
            out.append({"kind": "chain", "seq": [J(a), J(b), J(bridge)], "cs": cs})
            out.append({"kind": "chain", "seq": [J(a + b), J(bridge)], "cs": cs})
            out.append({"kind": "chain", "seq": [J(a), J(merge), J(b)], "cs": cs})
            for v in sweeps.variants("p" + tp)[:5]:
                out.append({"kind": "chain", "seq": [J(a), J([mrec(v, "nm/")])], "cs": cs})
            for v in sweeps.variants("u" + t + "/")[:5]:
                out.append({"kind": "chain", "seq": [J(a), J([mrec("nm", v)])], "cs": cs})
        out.append({"kind": "sub", "recs": J(a + b), "P": ["q" + tp]})
        out.append({"kind": "sub", "recs": J(a + b), "P": ["r" + tp + "2", "zz"]})
    for x, y in sweeps.TWINS:
        for cs in (True, False):
            out.append({"kind": "chain", "seq": [J([mrec(x, "u1/")]), J([mrec(y, "u2/")])], "cs": cs})
            out.append({"kind": "chain", "seq": [J([mrec("p", "u" + x)]), J([mrec("r", "u" + y)])], "cs": cs})
    for x, y in sweeps.URL_TWINS:
        for cs in (True, False):
            out.append({"kind": "chain", "seq": [J([mrec("one", x)]), J([mrec("two", y)])], "cs": cs})
    for n in sweeps.COUNTS:
        big = [mrec(f"p{i}", f"u{i}/", [f"s{i}"], [f"v{i}/"]) for i in range(n)]
        k = n - 1
        for cs in (True, False):
            out.append({"kind": "chain", "seq": [J(big), J([mrec("p0", f"U{k}/")])], "cs": cs})     # exact hit + case-only hit elsewhere
            out.append({"kind": "chain", "seq": [J(big), J([mrec(f"S{k}", "fresh/")])], "cs": cs})   # case-only hit
            out.append({"kind": "chain", "seq": [J(big), J([mrec("new", "new/", [f"s{k}"], ["v0/"])])], "cs": cs})   # bridges first and last
            out.append({"kind": "chain", "seq": [J(big[: n // 2]), J(big[n // 2:]), J([mrec("P0", "w/"), mrec(f"p{k}", "w2/")])], "cs": cs})
        out.append({"kind": "sub", "recs": J(big), "P": [f"s{k}"]})
        out.append({"kind": "sub", "recs": J(big), "P": ["p0", f"s{k}", f"p{n // 2}", "zz"]})
    rep = [mrec("a", "x", ["s", "s"]), mrec("b", "y"), mrec("c", "z", ["t", "u", "t"], ["zz", "zz"])]
    for P in subsets(["a", "s", "b", "t", "u", "q"]):
        out.append({"kind": "sub", "recs": J(rep), "P": list(P)})
    for cs in (True, False):
        out.append({"kind": "chain", "seq": [J(rep), J([mrec("s", "x2"), mrec("t", "z2", ["t2", "t2"])])], "cs": cs})
    return out


def fold_eq(a, b):
    return a.casefold() == b.casefold()


def check_chain(seq_json, cs, ctx=None):
    fails = []
    seqs = [recs_from_json(j) for j in seq_json]
    convs = [Converter([to_record(r) for r in s]) for s in seqs]
    # the fold visits each converter's records in that converter's own record order (an implementation-defined order:
    # sorted by canonical prefix); the reference follows it, since which record "comes later" is part of the statement
    models = [model_of(c) for c in convs]
    exp = model_chain(models, case_sensitive=cs)
    where = f"chain({seq_json}, case_sensitive={cs})"
    try:
        res = chain(convs, case_sensitive=cs)
        exc = None
    except Exception as e:  # noqa
        res, exc = None, e
    if ctx is not None:
        ctx.count("transitions")
        ctx.count("chain_bridging_rejected" if exp is None else "chain_ok")
    if exc is not None and not isinstance(exc, ValueError):
        return [("chain/unexpected-exception-type/" + type(exc).__name__, f"{where}: {type(exc).__name__}: {exc}")]
    if (exc is not None) != (exp is None):
        return [("chain/accepts-or-rejects-differently-from-reference-fold", f"{where}: implementation {'raised ValueError' if exc else 'returned'}, reference fold {'finds a bridging record' if exp is None else 'succeeds'}")]
    if exc is not None:
        return fails
    # C04 / C05 on the result
    try:
        fresh = Converter(copy.deepcopy(res.records))
    except Exception as e:  # noqa
        return [("chain/result-violates-uniqueness", f"{where}: rebuilding from the result's records raises {type(e).__name__}")]
    if indexes(fresh) != indexes(res) or observe(fresh, QS, QP) != observe(res, QS, QP):
        fails.append(("chain/result-inconsistent-with-its-records", f"{where}: result answers differently from a fresh converter built from its records"))
    allp = set().union(*[m.all_prefixes() for m in models]) if models else set()
    allu = set().union(*[m.all_uri_prefixes() for m in models]) if models else set()
    if res.get_prefixes(include_synonyms=True) != allp:
        fails.append(("chain/prefix-union-violated", f"{where}: prefixes {sorted(res.get_prefixes(include_synonyms=True))} != union {sorted(allp)}"))
    if res.get_uri_prefixes(include_synonyms=True) != allu:
        fails.append(("chain/uri-prefix-union-violated", f"{where}: URI prefixes {sorted(res.get_uri_prefixes(include_synonyms=True))} != union {sorted(allu)}"))
    for m in models:
        for r in m.records:
            owners = {res.standardize_prefix(p) for p in r.prefixes} | {(res.parse_uri(u, return_none=True) or (None,))[0] for u in r.uri_prefixes}
            if len(owners) != 1 or None in owners:
                fails.append(("chain/input-record-split-or-lost", f"{where}: strings of input record {r} resolve to {owners}"))
    if cs and models:
        for p in models[0].all_prefixes():
            if res.expand(p + ":1") != convs[0].expand(p + ":1"):
                fails.append(("chain/first-converter-does-not-win", f"{where}: expand({p + ':1'!r}) = {res.expand(p + ':1')!r}, first converter gives {convs[0].expand(p + ':1')!r}"))
    if not cs:
        held = [(p, i) for i, r in enumerate(res.records) for p in [r.prefix, *r.prefix_synonyms]]
        for (p, i), (q, j) in it.combinations(held, 2):
            if i != j and fold_eq(p, q):
                fails.append(("chain/case-insensitive-result-holds-case-variants-in-two-records", f"{where}: {p!r} and {q!r} in different records"))
    if record_set(res) != exp.record_set():
        fails.append(("chain/records-differ-from-reference-fold", f"{where}: {sorted(map(repr, record_set(res)))} vs reference {sorted(map(repr, exp.record_set()))}"))
    # restriction of a converter that was reached through merges (not only of freshly constructed ones)
    if not fails:
        for p in sorted(allp):
            try:
                sub = res.get_subconverter([p])
            except Exception as e:  # noqa
                fails.append(("sub-of-chained/raises/" + type(e).__name__, f"{where}.get_subconverter([{p!r}])"))
                break
            want = model_sub(exp, {p})
            if record_set(sub) != want.record_set():
                fails.append(("sub-of-chained/records-differ", f"{where}.get_subconverter([{p!r}]) keeps {sorted(r.prefix for r in sub.records)}, expected {sorted(r.prefix for r in want.records)}"))
                break
            if sub.expand(p + ":1") != res.expand(p + ":1"):
                fails.append(("sub-of-chained/answers-differ-from-parent", f"{where}.get_subconverter([{p!r}]): expand({p + ':1'!r})"))
        if ctx is not None:
            ctx.count("subconverters_of_chained")
    for c_in, m_in, seq_in in zip(convs, models, seqs):
        # (also C10's subject) an input that is reused must still be what it was: later chains would inherit the damage
        if record_set(c_in) != m_in.record_set():
            fails.append(("chain/input-records-changed", f"{where}: input {recs_to_json(seq_in)} now has records {sorted(map(repr, record_set(c_in)))}"))
    if any(res is c for c in convs):
        fails.append(("chain/returns-one-of-its-inputs", f"{where}: the result is an input object itself"))
    if cs and models and not fails and models[0].records:
        # the first converter an instance of a subclass using the documented identifier hook: the result expands what the first
        # converter knows exactly as the first converter does
        from ..impl import HookedConverter

        hfirst = HookedConverter([to_record(r) for r in seqs[0]])
        try:
            hres = chain([hfirst] + [Converter([to_record(r) for r in s_]) for s_ in seqs[1:]], case_sensitive=True)
        except ValueError:
            hres = None
        if hres is not None:
            for r in models[0].records:
                for p in r.prefixes:
                    for i_ in ("X1", "bad", "1"):
                        c_ = p + ":" + i_
                        if ":" not in p and hres.expand(c_) != hfirst.expand(c_):
                            fails.append(("chain/first-converter-does-not-win", f"{where} with the first converter a subclass overriding standardize_identifier: expand({c_!r}) = {hres.expand(c_)!r}, the first converter gives {hfirst.expand(c_)!r}"))
    if cs and models and not fails:
        # the same chain with the first converter writing CURIEs with another delimiter: the result expands and compresses
        # what the first converter knows exactly as the first converter does, and chain([c]) is equivalent to c
        for d2 in ("/", "::"):
            if any(d2 in p for p in models[0].all_prefixes()):
                continue
            first2 = Converter([to_record(r) for r in seqs[0]], delimiter=d2)
            try:
                res2 = chain([first2] + [Converter([to_record(r) for r in s_]) for s_ in seqs[1:]], case_sensitive=True)
            except ValueError:
                break
            for r in models[0].records:
                for p in r.prefixes:
                    c_ = p + d2 + "1"
                    if res2.expand(c_) != first2.expand(c_):
                        fails.append(("chain/first-converter-does-not-win", f"{where} with the first converter using delimiter {d2!r}: expand({c_!r}) = {res2.expand(c_)!r}, the first converter gives {first2.expand(c_)!r}"))
                if len(seqs) == 1 and res2.compress(r.uri_prefix + "#7") != first2.compress(r.uri_prefix + "#7"):
                    fails.append(("chain/singleton-chain-not-equivalent", f"{where} with delimiter {d2!r}: compress({r.uri_prefix + '#7'!r}) = {res2.compress(r.uri_prefix + '#7')!r}, the converter itself gives {first2.compress(r.uri_prefix + '#7')!r}"))
            if fails:
                break
    if len(seqs) == 1 and cs:
        if record_set(res) != record_set(convs[0]) or observe(res, QS, QP) != observe(convs[0], QS, QP):
            fails.append(("chain/singleton-chain-not-equivalent", f"{where}: chain([c]) differs from c"))
    if ctx is not None:
        ctx.state(hash(canon(res)))
        ctx.count("evaluations", 2 * (len(QS) + len(QP)) + len(allp) + len(allu))
        if not fails:
            ctx.count("validated")
        if len(res.records) < sum(len(s) for s in seqs):
            ctx.count("chain_merged_something")
            ctx.distinct(hash((canon(res), cs)))
    return fails


def check_sub(recs_json, delim_rewrite, P, ctx=None):
    fails = []
    recs = recs_from_json(recs_json)
    conv = Converter([to_record(r) for r in recs])
    model = Model(recs, ":")
    exp = model_sub(model, P)
    where = f"Converter({recs_json}).get_subconverter({sorted(P)})"
    try:
        sub = conv.get_subconverter(list(P))
        # P may be any iterable of prefixes: the kind of collection does not matter
        import collections as _c

        kinds = {"set": set(P), "tuple": tuple(sorted(P)), "generator": (p for p in sorted(P)), "dict": dict.fromkeys(sorted(P), 0), "deque": _c.deque(sorted(P)), "frozenset": frozenset(P)}
        try:
            import pandas as _pd

            kinds["pandas.Series"] = _pd.Series(sorted(P), index=[f"r{i}" for i in range(len(P))], dtype=object)
        except ImportError:
            pass
        for kname, pk in kinds.items():
            other = conv.get_subconverter(pk)
            if record_set(other) != record_set(sub):
                return [("sub/depends-on-the-kind-of-collection/" + kname, f"{where}: given as a {kname} it keeps {sorted(r.prefix for r in other.records)}, given as a list {sorted(r.prefix for r in sub.records)}")]
    except Exception as e:  # noqa
        return [("sub/raises/" + type(e).__name__, f"{where}: {type(e).__name__}: {e}")]
    if ctx is not None:
        ctx.count("transitions")
    if record_set(sub) != exp.record_set():
        kept = sorted(r.prefix for r in sub.records)
        want = sorted(r.prefix for r in exp.records)
        kind = "record-missing" if set(want) - set(kept) else "extra-record" if set(kept) - set(want) else "record-altered"
        return [(f"sub/{kind}", f"{where}: keeps {kept}, expected exactly {want}")]
    qs = [p + ":1" for p in sorted(model.all_prefixes()) + ["z"]] + [u + "1" for u in sorted(model.all_uri_prefixes())] + ["q1"]
    for q in qs:
        if sub.expand(q) != exp.expand(q) or sub.compress(q) != exp.compress(q) or sub.standardize_curie(q) != exp.standardize_curie(q):
            fails.append(("sub/answers-differ-from-its-records", f"{where}: query {q!r}: expand {sub.expand(q)!r}/{exp.expand(q)!r} compress {sub.compress(q)!r}/{exp.compress(q)!r}"))
    for r in exp.records:
        for p in r.prefixes:
            if sub.expand(p + ":1") != conv.expand(p + ":1"):
                fails.append(("sub/answers-differ-from-parent-on-kept-record", f"{where}: expand({p + ':1'!r})"))
    for r in model.records:
        if r.key() not in {k.key() for k in exp.records}:
            for p in r.prefixes:
                if sub.expand(p + ":1") is not None or sub.standardize_prefix(p) is not None:
                    fails.append(("sub/answers-on-dropped-record", f"{where}: prefix {p!r} of a dropped record is still known"))
    if not fails and exp.records:
        # a parent that writes CURIEs with another delimiter: the restriction answers as the parent does on the kept records
        for d2 in ("/", "::"):
            if any(d2 in p_ for p_ in model.all_prefixes()):
                continue
            parent2 = Converter([to_record(r) for r in recs], delimiter=d2)
            sub2 = parent2.get_subconverter(list(P))
            for r in exp.records:
                for p_ in r.prefixes:
                    c_ = p_ + d2 + "1"
                    if sub2.expand(c_) != parent2.expand(c_):
                        fails.append(("sub/answers-differ-from-parent-on-kept-record", f"{where} with the parent using delimiter {d2!r}: expand({c_!r}) = {sub2.expand(c_)!r}, the parent gives {parent2.expand(c_)!r}"))
                u_ = r.uri_prefix + "#7"
                if sub2.compress(u_) != parent2.compress(u_) and parent2.parse_uri(u_, return_none=True) == sub2.parse_uri(u_, return_none=True):
                    fails.append(("sub/answers-differ-from-parent-on-kept-record", f"{where} with the parent using delimiter {d2!r}: compress({u_!r}) = {sub2.compress(u_)!r}, the parent gives {parent2.compress(u_)!r}"))
            if fails:
                break
    if not fails and exp.records:
        # a parent that is an instance of a subclass using the documented identifier hook: on the kept records the restriction
        # answers as the parent does, the hook included
        from ..impl import HookedConverter

        hp = HookedConverter([to_record(r) for r in recs])
        hs = hp.get_subconverter(list(P))
        for r in exp.records:
            for p_ in r.prefixes:
                for i_ in ("X1", "bad", "y", "1"):
                    c_ = p_ + ":" + i_
                    if ":" not in p_ and hs.expand(c_) != hp.expand(c_):
                        fails.append(("sub/answers-differ-from-parent-on-kept-record", f"{where} with the parent a subclass overriding standardize_identifier: expand({c_!r}) = {hs.expand(c_)!r}, the parent gives {hp.expand(c_)!r}"))
            if fails:
                break
    if not fails and recs:
        # restriction follows the parent's *current* records: a synonym gained by a merge after an earlier restriction selects its record
        try:
            conv.add_record(Record(prefix="zs9", uri_prefix=recs[0].uri_prefix), merge=True)
            conv.add_prefix("zt9", "zt9/")
            for P2, want in ((["zs9"], {recs[0].prefix}), (["zt9"], {"zt9"}), (["zs9", "zt9"], {recs[0].prefix, "zt9"})):
                got = {r.prefix for r in conv.get_subconverter(P2).records}
                if got != want:
                    fails.append(("sub/stale-after-the-parent-changed", f"{where}; then the parent gained synonym 'zs9' (merge) and record 'zt9': get_subconverter({P2}) keeps {sorted(got)}, expected {sorted(want)}"))
            if sub.standardize_prefix("zs9") is not None or sub.standardize_prefix("zt9") is not None:
                fails.append(("sub/earlier-restriction-follows-the-parent", f"{where}: the restriction taken earlier knows prefixes its parent gained later"))
        except Exception as e:  # noqa
            fails.append(("sub/raises/" + type(e).__name__, f"{where}; then after the parent changed: {type(e).__name__}: {e}"))
    if ctx is not None:
        ctx.state(hash(canon(sub)))
        ctx.count("evaluations", len(qs) * 3)
        if not fails:
            ctx.count("validated")
        if 0 < len(exp.records) < len(model.records):
            ctx.count("sub_proper_restriction")
        if any(p in P for r in model.records for p in r.psyn):
            ctx.count("sub_selected_by_synonym")
    return fails


SUB_P_C04 = ["a", "A", "b", "z"]
SUB_P_JOINT = ["", "a", "A", "x", "z"]


def run_unit(unit, ctx):
    U = universe()
    kind = unit["kind"]
    if kind == "pairs":
        for i in unit["first"]:
            # singleton chains
            for cs in (True, False):
                case = {"kind": "chain", "seq": [recs_to_json(U[i])], "cs": cs}
                for sig, msg in check_chain(case["seq"], cs, ctx)[:2]:
                    ctx.violation("C09/" + sig, msg, case)
            for j in range(len(U)):
                for cs in (True, False):
                    case = {"kind": "chain", "seq": [recs_to_json(U[i]), recs_to_json(U[j])], "cs": cs}
                    for sig, msg in check_chain(case["seq"], cs, ctx)[:2]:
                        ctx.violation("C09/" + sig, msg, case)
            ctx.sample({"kind": "chain", "seq": [recs_to_json(U[i]), recs_to_json(U[-1])], "cs": False})
    elif kind == "triples":
        for i in unit["first"]:
            for j in range(1, 82):
                for k in range(1, 82):
                    for cs in (True, False):
                        case = {"kind": "chain", "seq": [recs_to_json(U[i]), recs_to_json(U[j]), recs_to_json(U[k])], "cs": cs}
                        for sig, msg in check_chain(case["seq"], cs, ctx)[:2]:
                            ctx.violation("C09/" + sig, msg, case)
    elif kind == "sweep":
        for case in unit["cases"]:
            ctx.count("sweep_cases")
            for sig, msg in replay(case, ctx)[:2]:
                ctx.violation(sig, msg, case)
    elif kind == "sub-c04":
        for i in unit["idx"]:
            for P in subsets(SUB_P_C04):
                case = {"kind": "sub", "recs": recs_to_json(U[i]), "P": list(P)}
                for sig, msg in check_sub(case["recs"], None, set(P), ctx)[:2]:
                    ctx.violation("C09/" + sig, msg, case)
    elif kind == "sub-joint":
        cfgs = joint.configurations(unit["tier"])
        for i in unit["idx"]:
            for P in subsets(SUB_P_JOINT):
                case = {"kind": "sub", "recs": recs_to_json(cfgs[i]), "P": list(P)}
                for sig, msg in check_sub(case["recs"], None, set(P), ctx)[:2]:
                    ctx.violation("C09/" + sig, msg, case)


def replay(case, ctx=None):
    if case["kind"] == "chain":
        fails = check_chain(case["seq"], case["cs"], ctx)
    else:
        fails = check_sub(case["recs"], None, set(case["P"]), ctx)
    return [("C09/" + s, m) for s, m in fails]


def describe(tier):
    return {
        "level": "model_checking",
        "rule": "chain: every singleton and every ordered pair (thorough: + every ordered triple of the 81 one-record converters) of the "
        f"{len(universe())} valid converters of <=2 records over prefixes {{a,A,b}} x URI prefixes {{x,X,xy}} (<=1 synonym per side, 3 with "
        "patterns), both case modes, lock-step with the reference fold of add_record(merge=True) plus the stated laws; get_subconverter: "
        "each of those converters x all 16 subsets of {a,A,b,z}, and each converter of the joint universe (C03) x all 32 subsets of "
        "{'',a,A,x,z}; distinct_nontrivial = distinct (result state, mode) in which chaining merged at least two records",
        "bounds": {"converters": len(universe()), "chain_length": 2 if tier == "quick" else 3},
        "exhaustive": True,
        "assumptions": ["default delimiter (the property does not vary it; both operations build the result with the default delimiter)",
                        "chain([c]) == c is required in case-sensitive mode (in case-insensitive mode a converter holding case variants is legitimately merged)"],
    }


def required_counters(tier):
    return ["chain_ok", "chain_bridging_rejected", "chain_merged_something", "sub_proper_restriction", "sub_selected_by_synonym", "validated"]
