"""C15 - references parse, print, compare and hash consistently.

Enumerates all reference objects over a prefix x identifier x name x class alphabet, all pairs of them (equality /
hash / order), all triples of the distinct (prefix, identifier) values plus mixed-class triples (order laws), all
converter contexts, and writes / reads every triple over a reference subset to real files (plain and gzip).
"""

from __future__ import annotations

import itertools as it
import os
import shutil
import tempfile

from ..engine import chunks
from ..impl import Converter, Record, curies, model_of

PROP = "C15"
from curies import NamableReference, NamedReference, Reference, ReferenceTuple  # noqa: E402
from curies.triples import Triple, read_triples, write_triples  # noqa: E402
from pydantic import ValidationError  # noqa: E402

PREFIXES = ["a", "", "é", "a b", "A", "a.b", "a1", "http", "[a"]
IDENTIFIERS = ["", "1", "x:y", ":", "\t", '"', "\n", "\r", "é", " s ", "0:", "//e.org/1", "b]", "a:1", "A:a:1"]
NAMES = [None, "N", "M", ""]
CLASSES = {"ReferenceTuple": ReferenceTuple, "Reference": Reference, "NamableReference": NamableReference, "NamedReference": NamedReference}
_TMP = None


def tmpdir():
    global _TMP
    if _TMP is None or not os.path.isdir(_TMP):
        _TMP = tempfile.mkdtemp(prefix="c15.", dir="/dev/shm" if os.path.isdir("/dev/shm") else None)
        import atexit

        atexit.register(shutil.rmtree, _TMP, True)
    return _TMP


def specs():
    out = []
    for p in PREFIXES:
        for i in IDENTIFIERS:
            out.append(("ReferenceTuple", p, i, None))
            out.append(("Reference", p, i, None))
            for n in NAMES:
                out.append(("NamableReference", p, i, n))
            for n in NAMES[1:]:
                out.append(("NamedReference", p, i, n))
    return out


def make(spec):
    cls, p, i, n = spec
    if cls == "ReferenceTuple":
        return ReferenceTuple(p, i)
    if cls == "Reference":
        return Reference(prefix=p, identifier=i)
    return CLASSES[cls](prefix=p, identifier=i, name=n)


def pair_of(spec):
    return (spec[1], spec[2])


def raises(f, *a, **k):
    try:
        f(*a, **k)
    except Exception as e:  # noqa
        return e
    return None


def check_object(spec):
    fails = []
    cls, p, i, n = spec
    C = CLASSES[cls]
    where = f"{cls}(prefix={p!r}, identifier={i!r}, name={n!r})"
    try:
        o = make(spec)
    except Exception as e:  # noqa   (the statement: built from EVERY separator-free prefix and every identifier)
        return [("construction-raises", f"{where}: {type(e).__name__}: {str(e)[:80]}")]
    curie = p + ":" + i
    if o.curie != curie:
        fails.append(("curie-is-not-prefix-colon-identifier", f"{where}: curie = {o.curie!r}"))
    if (o.prefix, o.identifier) != (p, i):
        fails.append(("fields-altered-on-construction", f"{where}: ({o.prefix!r}, {o.identifier!r})"))
    # parse back: from_curie
    try:
        back = C.from_curie(curie) if cls in ("ReferenceTuple", "Reference") else C.from_curie(curie, n)
        if back != o or type(back) is not C or (back.prefix, back.identifier) != (p, i) or (cls not in ("ReferenceTuple", "Reference") and back.name != n):
            fails.append((f"from_curie-does-not-parse-back/{cls}", f"{where}: from_curie({curie!r}) = {back!r}"))
    except Exception as e:  # noqa
        fails.append((f"from_curie-raises/{cls}", f"{where}: from_curie({curie!r}) raised {type(e).__name__}"))
    if cls != "ReferenceTuple":
        # string validation (name-less classes), dict validation, JSON round trip
        if cls in ("Reference", "NamableReference"):
            try:
                back = C.model_validate(curie)
                if (back.prefix, back.identifier) != (p, i):
                    fails.append((f"string-validation-does-not-parse-back/{cls}", f"{where}: model_validate({curie!r}) = {back!r}"))
            except Exception as e:  # noqa
                fails.append((f"string-validation-raises/{cls}", f"{where}: model_validate({curie!r}) raised {type(e).__name__}"))
        try:
            back = C.model_validate_json(o.model_dump_json())
            if back != o or (back.prefix, back.identifier) != (p, i) or getattr(back, "name", None) != getattr(o, "name", None):
                fails.append((f"json-round-trip-differs/{cls}", f"{where}: {back!r}"))
        except Exception as e:  # noqa
            fails.append((f"json-round-trip-raises/{cls}", f"{where}: {type(e).__name__}"))
        if o.pair != ReferenceTuple(p, i) or type(o.pair) is not ReferenceTuple:
            fails.append(("pair-differs", f"{where}: pair = {o.pair!r}"))
        # immutability
        for attr in ("prefix", "identifier") + (("name",) if cls != "Reference" else ()):
            e = raises(setattr, o, attr, "zz")
            if e is None:
                fails.append((f"instance-is-mutable/{cls}.{attr}", f"{where}: assignment to {attr} succeeded"))
        # a copy with an updated field prints its own CURIE (also after the original's was read)
        _ = o.curie
        for field_, val in (("identifier", "zz9"), ("prefix", "pp9")):
            cp = o.model_copy(update={field_: val})
            want_c = (val if field_ == "prefix" else p) + ":" + (val if field_ == "identifier" else i)
            if cp.curie != want_c or cp.pair != ((val if field_ == "prefix" else p), (val if field_ == "identifier" else i)):
                fails.append((f"copy-with-update-prints-stale-curie/{cls}", f"{where}.model_copy(update={{{field_!r}: {val!r}}}).curie = {cp.curie!r}"))
        # from_reference keeps the pair
        try:
            src = NamableReference(prefix=p, identifier=i, name=n if n is not None else "N")
            fr = C.from_reference(src)
            if (fr.prefix, fr.identifier) != (p, i):
                fails.append((f"from_reference-differs/{cls}", f"{where}: {fr!r}"))
        except Exception as e:  # noqa
            fails.append((f"from_reference-raises/{cls}", f"{where}: {type(e).__name__}"))
    else:
        if o != (p, i) or hash(o) != hash((p, i)) or tuple(o) != (p, i):
            fails.append(("ReferenceTuple-is-not-a-plain-tuple", f"{where}"))
        e = raises(setattr, o, "prefix", "zz")
        if e is None:
            fails.append(("instance-is-mutable/ReferenceTuple.prefix", f"{where}"))
        if o.to_pydantic() != Reference(prefix=p, identifier=i):
            fails.append(("to_pydantic-differs", f"{where}"))
    return fails


def check_unparsable():
    """Separator-free strings are rejected; splitting happens at the first separator only."""
    fails = []
    for s in ["", "nodelim", "a", " ", "a/b", "é"]:
        for name, C in CLASSES.items():
            args = (s,) if name in ("ReferenceTuple", "Reference") else (s, "N")
            e = raises(C.from_curie, *args)
            if not isinstance(e, ValueError):
                fails.append((f"separator-free-string-accepted/{name}.from_curie", f"from_curie({s!r}) -> {e!r}"))
        for C in (Reference, NamableReference):
            e = raises(C.model_validate, s)
            if not isinstance(e, ValueError):
                fails.append((f"separator-free-string-accepted/{C.__name__}.model_validate", f"model_validate({s!r}) -> {e!r}"))
    for s, (p, i) in {"a:b:c": ("a", "b:c"), ":x": ("", "x"), "::": ("", ":"), "a:": ("a", ""), "a: b:": ("a", " b:")}.items():
        for name, C in CLASSES.items():
            args = (s,) if name in ("ReferenceTuple", "Reference") else (s, "N")
            o = C.from_curie(*args)
            if (o.prefix, o.identifier) != (p, i):
                fails.append((f"not-split-at-first-separator/{name}", f"from_curie({s!r}) = ({o.prefix!r}, {o.identifier!r})"))
        for sep in ("/", "::"):
            s2 = s.replace(":", sep)
            o = Reference.from_curie(s2, sep=sep)
            if (o.prefix, o.identifier) != (p.replace(":", sep), i.replace(":", sep)):
                fails.append(("not-split-at-first-separator/custom-sep", f"from_curie({s2!r}, sep={sep!r}) = ({o.prefix!r}, {o.identifier!r})"))
    return fails


def check_pair(sa, sb):
    fails = []
    try:
        a, b = make(sa), make(sb)
    except Exception as e:  # noqa
        return [("construction-raises", f"{sa} / {sb}: {type(e).__name__}: {str(e)[:80]}")]
    same = pair_of(sa) == pair_of(sb)
    ta, tb = sa[0] == "ReferenceTuple", sb[0] == "ReferenceTuple"
    where = f"{sa} vs {sb}"
    if not ta and not tb:
        if (a == b) != same or (b == a) != same or (a != b) == same:
            fails.append(("equality-not-determined-by-prefix-and-identifier", f"{where}: a == b is {a == b}"))
        if same and hash(a) != hash(b):
            fails.append(("equal-references-hash-differently", f"{where}"))
        if same and len({a, b}) != 1:
            fails.append(("equal-references-not-merged-in-a-set", f"{where}"))
        try:
            lt = a < b
        except Exception as e:  # noqa
            fails.append(("less-than-raises", f"{where}: {type(e).__name__}"))
            return fails
        if lt != (pair_of(sa) < pair_of(sb)):
            fails.append(("order-is-not-lexicographic-on-the-pair", f"{where}: a < b is {lt}, pairs compare {pair_of(sa) < pair_of(sb)}"))
    elif ta and tb:
        if (a == b) != same or (same and hash(a) != hash(b)) or (a < b) != (pair_of(sa) < pair_of(sb)):
            fails.append(("ReferenceTuple-does-not-compare-as-a-tuple", f"{where}"))
    return fails


def check_order_triple(sa, sb, sc):
    try:
        a, b, c = make(sa), make(sb), make(sc)
    except Exception as e:  # noqa
        return [("construction-raises", f"{sa} / {sb} / {sc}: {type(e).__name__}: {str(e)[:80]}")]
    fails = []
    if a < a:
        fails.append(("order-not-irreflexive", f"{sa}"))
    if a < b and b < c and not a < c:
        fails.append(("order-not-transitive", f"{sa} < {sb} < {sc}"))
    if pair_of(sa) != pair_of(sb) and not (a < b) and not (b < a):
        fails.append(("order-not-total-on-distinct-pairs", f"{sa}, {sb}"))
    if a < b and b < a:
        fails.append(("order-not-antisymmetric", f"{sa}, {sb}"))
    return fails


from ..impl import FoldingConverter  # noqa: E402


def contexts():
    c1 = Converter([Record(prefix="a", uri_prefix="http://a/", prefix_synonyms=["A", "alias"]), Record(prefix="", uri_prefix="http://d/", prefix_synonyms=["dflt"])])
    c2 = Converter([Record(prefix="é", uri_prefix="http://e/", prefix_synonyms=["a b"])])
    return [c1, c2, Converter([])]


def check_context():
    fails = []
    n = 0
    for ci, conv in enumerate(contexts()):
        for p in PREFIXES + ["alias", "dflt", "zz"]:
            want = model_of(conv).standardize_prefix(p)  # independent of the implementation's own lookup
            for ident in ("1", "x:y", ""):
                for cname in ("Reference", "NamableReference", "NamedReference"):
                    C = CLASSES[cname]
                    data = {"prefix": p, "identifier": ident}
                    if cname == "NamedReference":
                        data["name"] = "N"
                    calls = {
                        "model_validate(context=converter)": lambda: C.model_validate(data, context=conv),
                        "model_validate(context={'converter': ...})": lambda: C.model_validate(data, context={"converter": conv}),
                        "from_curie(converter=)": (lambda: C.from_curie(p + ":" + ident, converter=conv)) if cname == "Reference" else (lambda: C.from_curie(p + ":" + ident, "N", converter=conv)),
                        "from_reference(converter=)": lambda: C.from_reference(NamableReference(prefix=p, identifier=ident, name="N"), converter=conv),
                    }
                    for label, f in calls.items():
                        n += 1
                        where = f"context {ci}: {cname}.{label} prefix {p!r}"
                        try:
                            o = f()
                            exc = None
                        except Exception as e:  # noqa
                            o, exc = None, e
                        if want is None:
                            if not isinstance(exc, ValidationError):
                                fails.append((f"unknown-prefix-not-rejected-with-validation-error/{cname}", f"{where}: {exc!r} / {o!r}"))
                        elif exc is not None:
                            fails.append((f"known-prefix-rejected/{cname}", f"{where}: {type(exc).__name__}"))
                        elif o.prefix != want or o.identifier != ident:
                            fails.append((f"prefix-not-standardised-through-context/{cname}", f"{where}: got ({o.prefix!r}, {o.identifier!r}), canonical prefix {want!r}"))
        # a converter with another delimiter as context: CURIE strings of references are still split at ':' (or at sep)
        slash = Converter([Record(prefix="a", uri_prefix="http://a/", prefix_synonyms=["A"])], delimiter="/")
        for cname, C in (("Reference", Reference), ("NamableReference", NamableReference)):
            for curie, wantpair in (("A:1", ("a", "1")), ("a:x/y", ("a", "x/y")), ("A:", ("a", ""))):
                n += 1
                try:
                    o = C.from_curie(curie, converter=slash) if cname == "Reference" else C.from_curie(curie, "N", converter=slash)
                    if (o.prefix, o.identifier) != wantpair:
                        fails.append((f"from_curie-with-converter-splits-differently/{cname}", f"from_curie({curie!r}, converter=<delimiter '/'>) = ({o.prefix!r}, {o.identifier!r})"))
                except Exception as e:  # noqa
                    fails.append((f"from_curie-with-converter-raises/{cname}", f"from_curie({curie!r}, converter=<delimiter '/'>): {type(e).__name__}"))
            e = raises(C.from_curie, "a/1", *((("N",)) if cname != "Reference" else ()), converter=slash)
            if not isinstance(e, ValueError):
                fails.append((f"separator-free-string-accepted/{cname}.from_curie-with-converter", f"from_curie('a/1', converter=<delimiter '/'>) -> {e!r}"))
        # a subclass that standardises prefixes its own way: validation goes through the converter's method
        fold = FoldingConverter([Record(prefix="GO", uri_prefix="http://go/", prefix_synonyms=["gomf"])])
        for p_in, want_p in (("go", "GO"), ("GOMF", "GO"), ("GO", "GO")):
            n += 1
            for C in (Reference, NamableReference):
                try:
                    o = C.model_validate({"prefix": p_in, "identifier": "1"}, context=fold)
                    if o.prefix != want_p:
                        fails.append(("context-standardisation-bypasses-the-converter", f"prefix {p_in!r} validated to {o.prefix!r}, converter.standardize_prefix gives {want_p!r}"))
                except Exception as e:  # noqa
                    fails.append(("context-standardisation-bypasses-the-converter", f"prefix {p_in!r} rejected ({type(e).__name__}) although converter.standardize_prefix gives {want_p!r}"))
        # the context is the live converter: a prefix rejected earlier is accepted once the converter knows it
        live = Converter([Record(prefix="a", uri_prefix="http://a/")])
        for cname in ("Reference", "NamableReference"):
            C = CLASSES[cname]
            for newp, how in (("late1", "add_prefix"), ("late2", "merge")):
                n += 1
                e1 = raises(C.model_validate, {"prefix": newp, "identifier": "1"}, context=live)
                if how == "add_prefix":
                    live.add_prefix(newp, f"http://{newp}/")
                    want2 = newp
                else:
                    live.add_record(Record(prefix=newp, uri_prefix="http://a/"), merge=True)
                    want2 = "a"
                try:
                    o = C.model_validate({"prefix": newp, "identifier": "1"}, context=live)
                    if not isinstance(e1, ValidationError) or o.prefix != want2:
                        fails.append((f"context-validation-wrong-after-converter-changed/{cname}", f"{newp!r} ({how}): before -> {e1!r}, after -> {o!r}"))
                except Exception as e:  # noqa
                    fails.append((f"context-validation-stale-after-converter-changed/{cname}", f"{newp!r} was rejected, then added to the converter ({how}), and is still rejected: {type(e).__name__}"))
            live = Converter([Record(prefix="a", uri_prefix="http://a/")])
        # without context nothing is standardised
        o = Reference.model_validate({"prefix": "alias", "identifier": "1"})
        if o.prefix != "alias":
            fails.append(("prefix-changed-without-context", repr(o)))
    return fails, n


FILE_REFS = [("a", "1"), ("", ""), ("é", "x:y"), ("a b", '"'), ("A", "\t"), ("a", "\n"), ("a.b", "\r"), ("a", " s "), ("#p", "1"), ("a", "x\n#y")]


def check_files(idx_a):
    fails = []
    n = 0
    refs = [Reference(prefix=p, identifier=i) for p, i in FILE_REFS]
    a = refs[idx_a]
    triples = [Triple(subject=a, predicate=b, object=c) for b in refs for c in refs]
    for ext in ("tsv", "tsv.gz"):
        path = os.path.join(tmpdir(), f"{os.getpid()}.{ext}")
        # one file per triple (isolates the failing one) and one file with all of them (row interaction)
        for batch in [[t] for t in triples] + [triples, [triples[0], triples[0], triples[-1], triples[0]]]:   # the last: repeated rows
            n += 1
            try:
                write_triples(batch, path)
                back = read_triples(path)
            except Exception as e:  # noqa
                fails.append((f"triples-file-round-trip-raises/{ext}", f"{[t.subject.curie for t in batch][:1]} {[(t.predicate.curie, t.object.curie) for t in batch][:1]}: {type(e).__name__}: {str(e)[:80]}"))
                continue
            if back != batch:
                bad = next((x for x, y in zip(batch, back) if x != y), batch[0])
                fails.append((f"triples-file-round-trip-differs/{ext}", f"{len(batch)} triple(s): wrote {(bad.subject.curie, bad.predicate.curie, bad.object.curie)!r}, read back {[(t.subject.curie, t.predicate.curie, t.object.curie) for t in back][:1]!r}"))
            if len(fails) > 3:
                return fails, n
        write_triples(triples, path)
        back = read_triples(path, reference_cls=NamableReference)
        if [(t.subject.pair, t.predicate.pair, t.object.pair) for t in back] != [(t.subject.pair, t.predicate.pair, t.object.pair) for t in triples]:
            fails.append((f"triples-file-round-trip-differs/{ext}/reference_cls", "NamableReference"))
    # custom headers (also ones that look like comments or need quoting)
    for header in (["#subject", "predicate", "object"], ['s"x', "p\ty", "o"], ["", "", ""], ["rdf:subject", "rdf:predicate", "rdf:object"], ["a:1", "a:1", "a:1"]):
        n += 1
        path = os.path.join(tmpdir(), f"{os.getpid()}.h.tsv")
        try:
            write_triples(triples[:3], path, header=header)
            back = read_triples(path)
        except Exception as e:  # noqa
            fails.append(("triples-file-round-trip-raises/custom-header", f"header {header}: {type(e).__name__}: {str(e)[:80]}"))
            continue
        if back != triples[:3]:
            fails.append(("triples-file-round-trip-differs/custom-header", f"header {header}: wrote 3 triples, read back {len(back)}"))
    # triples produced on the fly by a one-shot stream (each object lives only while it is being written), and references
    # that carry names (a name never matters)
    for label, make in (("lazy-stream", lambda: (Triple(subject=Reference(prefix=p, identifier=i), predicate=Reference(prefix=p2, identifier=i2), object=Reference(prefix=p, identifier=i2))
                                               for p, i in FILE_REFS for p2, i2 in FILE_REFS[:4])),
                        ("named-references", lambda: [Triple(subject=NamedReference(prefix=p, identifier=i, name="five"), predicate=NamableReference(prefix=p, identifier=i, name="N ! M"), object=NamableReference(prefix=p, identifier=i))
                                                      for p, i in FILE_REFS])):
        n += 1
        path = os.path.join(tmpdir(), f"{os.getpid()}.l.tsv")
        try:
            expected = [(t_.subject.pair, t_.predicate.pair, t_.object.pair) for t_ in make()]
            write_triples(make(), path)
            back = [(t_.subject.pair, t_.predicate.pair, t_.object.pair) for t_ in read_triples(path)]
        except Exception as e:  # noqa
            fails.append((f"triples-file-round-trip-raises/{label}", f"{type(e).__name__}: {str(e)[:80]}"))
            continue
        if back != expected:
            bad = next(((x, y) for x, y in zip(expected, back) if x != y), (expected[:1], back[:1]))
            fails.append((f"triples-file-round-trip-differs/{label}", f"{len(expected)} triples written, {len(back)} read; first difference: wrote {bad[0]!r}, read {bad[1]!r}"))
    t = Triple.from_curies("a:1", ":x", "é:x:y")
    if (t.subject.pair, t.predicate.pair, t.object.pair) != (("a", "1"), ("", "x"), ("é", "x:y")):
        fails.append(("Triple.from_curies-differs", repr(t)))
    return fails, n


HIST_OPS = ["ok0", "ok1", "fail0-keep", "fail1-keep", "fail2-keep", "fail1-forget", "fail1-retry0", "fail0-retry1", "release"]


def check_write_histories(depth, ext, first):
    """Every sequence of <= depth calls on ONE path: complete writes of two lists, writes whose source of triples breaks after j triples
    (the caller keeps the exception object, forgets it, or writes other data from inside the except block), and the caller releasing
    the exceptions it kept.  Once a write_triples call has returned, read_triples returns that list - after every later step that
    is not itself a write to the path."""
    import gc

    fails = []
    n = 0
    lists = [[Triple.from_curies("x:9", "y:8", "z:7")],
             [Triple.from_curies("a:1", "b:2", "c:3"), Triple.from_curies("a:1", "b:2", 'd:"4'), Triple.from_curies("e:5", "f:6", "g:7"), Triple.from_curies("h:\t", "i:9", "j:0")]]
    broken = lists[1]

    def source(j):
        yield from broken[:j]
        raise RuntimeError("source failed")

    path = os.path.join(tmpdir(), f"{os.getpid()}.hist.{ext}")
    for seq in it.product(HIST_OPS, repeat=depth):
        if seq[0] != first:
            continue
        kept = []
        last = None          # the list of the last write_triples call that returned, None while unspecified
        for step, op in enumerate(seq):
            try:
                if op.startswith("ok"):
                    write_triples(lists[int(op[2])], path)
                    last = lists[int(op[2])]
                elif op == "release":
                    kept.clear()
                    gc.collect()
                else:
                    j = int(op[4])
                    how = op.split("-")[1]
                    try:
                        write_triples(source(j), path)
                        fails.append(("triples-file/failing-source-not-reported", f"{ext}: {seq[:step + 1]}"))
                    except RuntimeError as e:
                        last = None
                        if how == "keep":
                            kept.append(e)
                        elif how.startswith("retry"):
                            write_triples(lists[int(how[5])], path)
                            last = lists[int(how[5])]
                            if read_triples(path) != last:
                                fails.append(("triples-file/complete-write-not-read-back", f"{ext}: {seq[:step + 1]} (read inside the except block)"))
                n += 1
                if last is not None:
                    back = read_triples(path)
                    if back != last:
                        fails.append(("triples-file/complete-write-later-overwritten", f"{ext}: after {list(seq[:step + 1])} on one path, read_triples returned {[(t.subject.curie, t.object.curie) for t in back][:2]} "
                                      f"({len(back)} triples), the last completed write_triples wrote {[(t.subject.curie, t.object.curie) for t in last][:2]} ({len(last)} triples)"))
            except Exception as e:  # noqa
                fails.append(("triples-file/history-raises", f"{ext}: {seq[:step + 1]}: {type(e).__name__}: {str(e)[:80]}"))
            if fails:
                kept.clear()
                gc.collect()
                return fails, n
        kept.clear()
        gc.collect()
    return fails, n


def sweep_specs():
    """Breadth sweep (mc/sweeps.py): every token inside and as the whole of the prefix / identifier / name, for each class."""
    from .. import sweeps

    out = []
    for t in sweeps.TOKENS:
        tp = "" if ":" in t else t
        for cls in CLASSES:
            n = None if cls in ("ReferenceTuple", "Reference") else "n" + t
            out.append((cls, "p" + tp, "i" + t, n))
            out.append((cls, tp, t, n))
            out.append((cls, "p", t + ":" + t, n))
    return out


def check_file_refs(pairs):
    """write_triples / read_triples on triples built from the given (prefix, identifier) pairs: one file per triple, one with all."""
    fails = []
    refs = [Reference(prefix=p, identifier=i) for p, i in pairs]
    triples = [Triple(subject=a, predicate=b, object=c) for a in refs for b in refs[:2] for c in refs]
    for ext in ("tsv", "tsv.gz"):
        path = os.path.join(tmpdir(), f"{os.getpid()}.s.{ext}")
        for batch in [[t] for t in triples[: len(refs) * 2]] + [triples]:
            try:
                write_triples(batch, path)
                back = read_triples(path)
            except Exception as e:  # noqa
                fails.append((f"triples-file-round-trip-raises/{ext}", f"{[(t.subject.pair, t.predicate.pair, t.object.pair) for t in batch][:1]}: {type(e).__name__}: {str(e)[:80]}"))
                break
            if back != batch:
                bad = next((x for x, y in zip(batch, back) if x != y), batch[0])
                fails.append((f"triples-file-round-trip-differs/{ext}", f"{len(batch)} triple(s): wrote {(bad.subject.pair, bad.predicate.pair, bad.object.pair)!r}, read back {len(back)} triple(s) {[(t.subject.pair, t.predicate.pair, t.object.pair) for t in back][:1]!r}"))
                break
    return fails


def sweep_file_refs():
    from .. import sweeps

    out = []
    for t in sweeps.TOKENS:
        tp = "" if ":" in t else t
        out.append([("p" + tp, "i" + t), (tp, t), ("a", t + "1" + t)])
    return out


def units(tier, seed):
    S = specs()
    us = [{"kind": "objects"}, {"kind": "unparsable"}, {"kind": "context"}]
    us += [{"kind": "sweep-objects", "part": i, "of": 4} for i in range(4)]
    us += [{"kind": "sweep-files", "part": i, "of": 8} for i in range(8)]
    us += [{"kind": "pairs", "first": ch} for ch in chunks(list(range(len(S))), 48)]
    refs = [i for i, s in enumerate(S) if s[0] == "Reference"]
    us += [{"kind": "order", "first": ch} for ch in chunks(refs, 24)]
    us += [{"kind": "order-mixed"}]
    us += [{"kind": "files", "a": i} for i in range(len(FILE_REFS))]
    us += [{"kind": "write-histories", "depth": 3 if tier == "quick" else 5, "ext": ext, "first": op} for ext in ("tsv", "tsv.gz") for op in HIST_OPS]
    return us


def run_unit(unit, ctx):
    """Every object the units build has a separator-free prefix (where a rejection is expected the unit catches it itself), so a
    ValidationError escaping from a unit is the library refusing an object the statement says can be built: a violation."""
    try:
        _run_unit(unit, ctx)
    except ValidationError as e:
        ctx.violation("C15/construction-raises", f"unit {unit}: {str(e)[:200]}", {"kind": "unit", "unit": unit})


def _run_unit(unit, ctx):
    S = specs()
    k = unit["kind"]

    def rep(fails, case):
        for sig, msg in fails[:2]:
            ctx.violation("C15/" + sig, msg, case)

    if k == "objects":
        for i, s in enumerate(S):
            f = check_object(s)
            ctx.count("evaluations", 8)
            ctx.count("objects")
            ctx.state(hash(s))
            if not f:
                ctx.count("validated")
            rep(f, {"kind": "object", "spec": list(s)})
        ctx.sample({"kind": "object", "spec": list(S[37])})
    elif k == "sweep-objects":
        for i, sp in enumerate(sweep_specs()):
            if i % unit["of"] != unit["part"]:
                continue
            f = check_object(sp)
            ctx.count("evaluations", 8)
            ctx.count("sweep_objects")
            rep(f, {"kind": "object", "spec": list(sp)})
    elif k == "sweep-files":
        for i, pairs in enumerate(sweep_file_refs()):
            if i % unit["of"] != unit["part"]:
                continue
            f = check_file_refs(pairs)
            ctx.count("evaluations", 2 * (len(pairs) * 2 + 1))
            ctx.count("sweep_file_round_trips")
            rep(f, {"kind": "file-refs", "pairs": [list(x) for x in pairs]})
    elif k == "unparsable":
        f = check_unparsable()
        ctx.count("evaluations", 80)
        ctx.count("unparsable_checks")
        rep(f, {"kind": "unparsable"})
    elif k == "context":
        f, n = check_context()
        ctx.count("evaluations", n)
        ctx.count("context_checks", n)
        rep(f, {"kind": "context"})
    elif k == "pairs":
        for i in unit["first"]:
            for j in range(len(S)):
                f = check_pair(S[i], S[j])
                ctx.count("transitions")
                if pair_of(S[i]) == pair_of(S[j]) and S[i] != S[j]:
                    ctx.count("pairs_equal_across_classes_or_names")
                    ctx.distinct(hash((S[i], S[j])))
                if not f:
                    ctx.count("validated")
                rep(f, {"kind": "pair", "a": list(S[i]), "b": list(S[j])})
        ctx.count("evaluations", len(unit["first"]) * len(S) * 4)
    elif k == "order":
        refs = [s for s in S if s[0] == "Reference"]
        for i in unit["first"]:
            for b in refs:
                for c in refs:
                    f = check_order_triple(S[i], b, c)
                    ctx.count("order_triples")
                    rep(f, {"kind": "order", "a": list(S[i]), "b": list(b), "c": list(c)})
        ctx.count("evaluations", len(unit["first"]) * len(refs) ** 2 * 4)
    elif k == "order-mixed":
        sub = [s for s in S if s[0] != "ReferenceTuple" and s[1] in ("a", "a b", "a.b", "") and s[2] in ("1", "x:y", "") and s[3] in (None, "N")]
        for a in sub:
            for b in sub:
                for c in sub:
                    f = check_order_triple(a, b, c)
                    ctx.count("order_triples")
                    rep(f, {"kind": "order", "a": list(a), "b": list(b), "c": list(c)})
    elif k == "write-histories":
        f, n = check_write_histories(unit["depth"], unit["ext"], unit["first"])
        ctx.count("evaluations", n)
        ctx.count("transitions", n)
        ctx.count("write_history_steps", n)
        rep(f, dict(unit))
    elif k == "files":
        f, n = check_files(unit["a"])
        ctx.count("evaluations", n)
        ctx.count("file_round_trips", n)
        rep(f, {"kind": "files", "a": unit["a"]})
        ctx.sample({"kind": "files", "subject": list(FILE_REFS[unit["a"]])})


def replay(case):
    k = case["kind"]
    if k == "unit":
        from ..engine import Ctx

        c = Ctx(0, case["unit"])
        run_unit(case["unit"], c)
        return [(v["signature"], v["message"]) for v in c.violations]
    if k == "object":
        f = check_object(tuple(case["spec"]))
    elif k == "unparsable":
        f = check_unparsable()
    elif k == "context":
        f = check_context()[0]
    elif k == "pair":
        f = check_pair(tuple(case["a"]), tuple(case["b"]))
    elif k == "order":
        f = check_order_triple(tuple(case["a"]), tuple(case["b"]), tuple(case["c"]))
    elif k == "file-refs":
        f = check_file_refs([tuple(x) for x in case["pairs"]])
    elif k == "write-histories":
        f = check_write_histories(case["depth"], case["ext"], case["first"])[0]
    else:
        f = check_files(case["a"])[0]
    return [("C15/" + s, m) for s, m in f]


def describe(tier):
    n = len(specs())
    return {
        "level": "model_checking",
        "rule": f"all {n} reference objects over prefixes {PREFIXES} x identifiers {IDENTIFIERS} x names {NAMES} x 4 classes; per object: print / "
        "from_curie / string validation / JSON round trip / immutability; all ordered pairs of objects (equality, hash, set membership, <); all "
        "triples of the Reference objects and all triples of a mixed-class subset (irreflexive, transitive, total, antisymmetric); 3 converter "
        "contexts x all prefixes x 4 entry points x 3 classes; write_triples/read_triples of every triple over 8 references (identifiers with tab, "
        "quote, LF, CR, separators, empty) individually and as one file, plain and gzip; every sequence of <= 3 (thorough 5) write steps on one path over "
        f"{HIST_OPS} (complete writes, writes whose source breaks after j triples with the exception kept / forgotten / answered by a retry, release of the kept exceptions), "
        "the file read back after every step; distinct_nontrivial = ordered pairs of different "
        "objects with equal (prefix, identifier)",
        "bounds": {"objects": n, "file_references": len(FILE_REFS)},
        "exhaustive": True,
        "assumptions": ["prefixes do not contain the separator (as quantified)", "string validation is exercised for the classes that do not require a name"],
    }


def required_counters(tier):
    return ["objects", "validated", "pairs_equal_across_classes_or_names", "order_triples", "context_checks", "file_round_trips", "unparsable_checks", "write_history_steps"]
