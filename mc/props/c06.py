"""C06 - standardisation is canonical, idempotent and meaning-preserving."""

from __future__ import annotations

from . import joint
from .c03 import safe

PROP = "C06"


def units(tier, seed):
    return joint.units(tier, seed, delim_in_prefix=True, prefix_subclass=True)


def check_subclass(conv, model, Q, fails, where):
    """A subclass that overrides standardize_prefix: standardize_curie rewrites the prefix part *accordingly*, i.e. as the
    object's own standardize_prefix says, and expansion follows."""
    d = model.delimiter
    for s in Q:
        head, sep, tail = s.partition(d)
        sp = conv.standardize_prefix(head) if sep else None
        want = None if sp is None else sp + d + tail
        got = safe(conv.standardize_curie, s)
        if got != want:
            fails.append(("standardize_curie/disagrees-with-standardize_prefix-of-the-same-object", f"{where}: standardize_curie({s!r}) = {got!r}, but standardize_prefix({head!r}) = {sp!r}"))
        wantx = None if sp is None else model.expand_pair(sp, tail)
        gotx = safe(conv.expand, s)
        if gotx != wantx:
            fails.append(("standardize_curie/changes-meaning", f"{where}: expand({s!r}) = {gotx!r}, but the prefix standardises to {sp!r}, i.e. {wantx!r}"))


def check_config(conv, model, Q, fails, where, ctx):
    from ..impl import FoldingConverter

    if isinstance(conv, FoldingConverter):
        check_subclass(conv, model, Q, fails, where)
        return
    pf = model.prefix_free()
    d = model.delimiter
    if ctx is not None:
        ctx.count("prefix_free_configs" if pf else "nested_configs")
    prefixes = list(dict.fromkeys(joint.prefix_queries() + sorted(model.all_prefixes())))
    nsyn = 0
    for p in prefixes:
        sp = conv.standardize_prefix(p)
        exp = model.standardize_prefix(p)
        if sp != exp:
            kind = "known-prefix-not-standardised" if sp is None else "unknown-prefix-standardised" if exp is None else "not-the-canonical-prefix"
            fails.append((f"standardize_prefix/{kind}", f"{where}: standardize_prefix({p!r}) = {sp!r}, reference {exp!r}"))
            continue
        if sp is not None:
            if sp != p:
                nsyn += 1
            if conv.standardize_prefix(sp) != sp:
                fails.append(("standardize_prefix/not-idempotent", f"{where}: standardize_prefix({sp!r}) = {conv.standardize_prefix(sp)!r}"))
    nuri = ncur = 0
    for s in Q:
        sc = safe(conv.standardize_curie, s)
        exp = model.standardize_curie(s)
        if sc != exp:
            fails.append(("standardize_curie/differs-from-reference", f"{where}: standardize_curie({s!r}) = {sc!r}, reference {exp!r}"))
        elif sc is not None:
            ncur += 1
            again = safe(conv.standardize_curie, sc)
            resplittable = joint.nocolon(model)   # a canonical prefix containing the delimiter cannot be re-split (syntax, not a defect)
            if resplittable and again != sc:
                fails.append(("standardize_curie/not-idempotent", f"{where}: standardize_curie({sc!r}) = {again!r}"))
            if resplittable and safe(conv.expand, sc) != safe(conv.expand, s):
                fails.append(("standardize_curie/changes-meaning", f"{where}: expand({sc!r}) = {safe(conv.expand, sc)!r} but expand({s!r}) = {safe(conv.expand, s)!r}"))
        su = conv.standardize_uri(s)
        exp = model.standardize_uri(s)
        if su != exp:
            kind = "recognised-uri-not-standardised" if su is None else "unrecognised-uri-standardised" if exp is None else "wrong-result"
            fails.append((f"standardize_uri/{kind}", f"{where}: standardize_uri({s!r}) = {su!r}, reference {exp!r}"))
        elif su is not None:
            nuri += 1
            if pf:
                if conv.standardize_uri(su) != su:
                    fails.append(("standardize_uri/not-idempotent-on-prefix-free-map", f"{where}: standardize_uri({su!r}) = {conv.standardize_uri(su)!r}"))
                if conv.compress(su) != conv.compress(s):
                    fails.append(("standardize_uri/changes-meaning-on-prefix-free-map", f"{where}: compress({su!r}) = {conv.compress(su)!r} but compress({s!r}) = {conv.compress(s)!r}"))
    if ctx is not None:
        ctx.count("evaluations", len(Q) * 2 + len(prefixes))
        ctx.count("synonym_prefixes_standardised", nsyn)
        ctx.count("curies_standardised", ncur)
        ctx.count("uris_standardised", nuri)
        if nsyn:
            ctx.distinct(hash(where))


def run_unit(unit, ctx):
    joint.run_unit_with(check_config, PROP, unit, ctx)


def replay(case):
    return joint.replay_with(check_config, PROP, case)


def describe(tier):
    return {
        "level": "model_checking",
        "rule": "joint universe (see C03) x {constructor, merge-late}; standardize_prefix on 9 fixed + all registered prefixes, "
        "standardize_curie and standardize_uri on every string up to length 3 over {a,A,x,X,y,delimiter} + corner strings; reference "
        "comparison plus idempotence / meaning-preservation laws on every case; distinct_nontrivial = configurations in which a "
        "synonym was rewritten to a different canonical prefix",
        "bounds": {"records": "<=2 (+3 without synonyms)", "query_len": 3, "delimiters": joint.DELIMS},
        "exhaustive": True,
        "assumptions": ["idempotence of standardize_curie assumes canonical prefixes do not contain the delimiter (true in this universe)"],
    }


def required_counters(tier):
    return ["configurations", "prefix_free_configs", "nested_configs", "synonym_prefixes_standardised", "curies_standardised", "uris_standardised", "validated"]
