"""C19 - discover returns a valid converter that compresses the URIs it learned from.

For every set S of <= K URI strings from a 20-string alphabet, EVERY sequence (order and repetition) of length <= K whose
support is S is fed to the real discover() for every delimiter list, cutoff, metaprefix and optional pre-existing
converter; the result must equal the reference grouping of the set (so it cannot depend on order or repetition).
"""

from __future__ import annotations

import itertools as it
import zlib

from ..engine import chunks
from ..impl import Converter, canon, curies, record_set, to_record
from ..refmodel import Model, mrec

PROP = "C19"
HASHSEEDS = (1, 2)  # thorough tier: the sweep is repeated under these PYTHONHASHSEED values (sets are iterated inside the code under test)
from curies.discovery import discover  # noqa: E402

URIS = [
    "h:/a/1", "h:/a/2", "h:/a/b_1", "h:/a/b_2", "h:/a#x", "h:/a#y", "h:/c/d#e_1", "h:/a/", "h:/a/x-y", "h:/a/b_x-y",
    "nodelim", "", "h:/é/1", "h:/a/é", "k:/z_1", "k:/z_2", "k:/z_3", "h:/a/1_", "h:/a/b_1#", "h:/a/b_3",
    "h:/m::1", "h:/m::2", "h:/p%3A1", "h:/p%3A2", "k:/zA_1",   # 'k:/zA_' sorts before 'k:/z_' as a string, after it as a (stem, delimiter) pair
]
DELIMS = [None, ["/"], ["_", "/"], ["::", "/"], ["%3A"]]   # incl. multi-character delimiters
CUTOFFS = [None, 0, 1, 2, 3]
METAPREFIXES = ["ns", "q"]
EXISTING = [
    None,
    [mrec("known", "h:/a/b_", [], ["k:/"]), mrec("other", "h:/c/")],
    # URI prefixes that do not end at a delimiter: recognised and unrecognised URIs share a candidate prefix
    [mrec("k2", "h:/a/b_1"), mrec("k3", "h:/a/2", [], ["h:/m::1"])],
    # a supplied converter whose own prefixes look like generated names (ns1, q2): numbering must not care
    [mrec("ns1", "unrelated:/", ["q2", "ns3"])],
    # CURIE prefixes that equal the URIs' scheme: 'h:/a/1' is a CURIE of this converter, but not one of its URIs
    [mrec("h", "other:/", ["k"])],
]
DEFAULT_DELIMS = ("#", "/", "_")


def reference(uris, delimiters, cutoff, metaprefix, existing):
    """The documented rule, on the SET of URIs."""
    delimiters = tuple(delimiters) if delimiters else DEFAULT_DELIMS
    known = Model(existing, ":") if existing else None
    groups = {}
    for uri in set(uris):
        if known is not None and known.is_uri(uri):
            continue
        for d in delimiters:
            if not d or d not in uri:      # (the empty string delimits nothing)
                continue
            head, tail = uri.rsplit(d, 1)
            if tail.isalnum():
                groups.setdefault(head + d, set()).add(tail)
                break
    kept = sorted(p for p, tails in groups.items() if cutoff is None or len(tails) >= cutoff)
    return [mrec(f"{metaprefix}{i}", p) for i, p in enumerate(kept, start=1)], groups


def sequences_with_support(S, maxlen):
    """All sequences of length <= maxlen whose set of elements is exactly S."""
    S = list(S)
    for n in range(len(S), maxlen + 1):
        for seq in it.product(S, repeat=n):
            if len(set(seq)) == len(S):
                yield seq


def param_grid(full):
    if full:
        return list(it.product(range(len(DELIMS)), CUTOFFS, METAPREFIXES, range(len(EXISTING))))
    return [(0, None, "ns", 0), (0, 2, "ns", 1)]


def check(seq, di, cutoff, metaprefix, ei, ctx=None, want=None):
    fails = []
    if not isinstance(di, int):      # an explicit delimiter list (sweep cases)
        DELIMS_ = {0: list(di)}
        return _check(seq, 0, cutoff, metaprefix, ei, ctx, want, DELIMS_)
    return _check(seq, di, cutoff, metaprefix, ei, ctx, want, DELIMS)


def _check(seq, di, cutoff, metaprefix, ei, ctx, want, DELIMS):
    fails = []
    existing = EXISTING[ei]
    conv_in = Converter([to_record(r) for r in existing]) if existing else None
    where = f"discover({list(seq)}, delimiters={DELIMS[di]}, cutoff={cutoff}, metaprefix={metaprefix!r}, converter={'given' if existing else None})"
    try:
        res = discover(list(seq), delimiters=DELIMS[di], cutoff=cutoff, metaprefix=metaprefix, converter=conv_in)
        if len(seq) >= 2 and (cutoff in (None, 2)):
            # the input may be any iterable, also a one-shot one
            res_it = discover((u for u in seq), delimiters=DELIMS[di], cutoff=cutoff, metaprefix=metaprefix, converter=conv_in)
            if record_set(res_it) != record_set(res):
                return [("result-depends-on-the-kind-of-iterable", f"{where}: given a generator the result has {len(res_it.records)} records, given a list {len(res.records)}")]
    except Exception as e:  # noqa
        return [(f"raises/{type(e).__name__}", f"{where}: {type(e).__name__}: {str(e)[:100]}")]
    if want is None:
        want = reference(seq, DELIMS[di], cutoff, metaprefix, existing)
    exp, groups = want
    exp_model = Model(exp, ":")
    if ctx is not None:
        ctx.count("transitions")
        ctx.count("evaluations")
    if record_set(res) != exp_model.record_set():
        got = {r.uri_prefix: r.prefix for r in res.records}
        wantd = {r.uri_prefix: r.prefix for r in exp}
        if set(got) != set(wantd):
            if cutoff is not None and set(got) ^ set(wantd) <= set(groups):
                kind = "cutoff-not-on-distinct-identifiers"
            elif existing and any(Model(existing).is_uri(u) for u in seq):
                kind = "prefix-set-differs-with-supplied-converter"
            else:
                kind = "prefix-set-differs-from-reference-grouping"
        else:
            kind = "naming-not-metaprefix-in-sorted-order"
        fails.append((kind, f"{where}: result {got}, reference {wantd}"))
        return fails
    dl = tuple(d_ for d_ in DELIMS[di] if d_) if DELIMS[di] else DEFAULT_DELIMS
    for r in res.records:
        if not r.uri_prefix.endswith(dl):
            fails.append(("uri-prefix-does-not-end-in-a-delimiter", f"{where}: {r.uri_prefix!r}"))
    if cutoff is None:
        known = Model(existing, ":") if existing else None
        for u in set(seq):
            if known is not None and known.is_uri(u):
                continue
            if any(d in u and u.rsplit(d, 1)[1].isalnum() for d in dl):
                c = res.compress(u)
                if c is None or res.expand(c) != u:
                    fails.append(("learned-uri-does-not-round-trip", f"{where}: compress({u!r}) = {c!r}, expand back = {None if c is None else res.expand(c)!r}"))
                elif ctx is not None:
                    ctx.count("learned_uris_round_tripped")
    if not fails and res.records and (cutoff is None or ei):
        # a result belongs to its caller: after it was curated (a synonym merged in, a record added), the same call gives the same answer
        try:
            first = res.records[0]
            res.add_prefix("curated", first.uri_prefix, merge=True)
            res.add_prefix("zq", "zq:/")
            again = discover(list(seq), delimiters=DELIMS[di], cutoff=cutoff, metaprefix=metaprefix, converter=conv_in)
            if record_set(again) != exp_model.record_set():
                fails.append(("result-depends-on-what-was-done-to-an-earlier-result", f"{where}: after the first result was curated, the same call returns {sorted(map(repr, record_set(again)))}"))
        except Exception as e:  # noqa
            fails.append((f"raises/{type(e).__name__}", f"{where} (second call after the first result was curated): {type(e).__name__}: {str(e)[:100]}"))
        if conv_in is not None and not fails:
            # the supplied converter is read at call time: once it has learnt the first discovered URI prefix, that prefix contributes nothing
            learnt = exp[0].uri_prefix
            try:
                conv_in.add_prefix("learnt", learnt)
                want2, _ = reference(seq, DELIMS[di], cutoff, metaprefix, list(existing) + [mrec("learnt", learnt)])
                again = discover(list(seq), delimiters=DELIMS[di], cutoff=cutoff, metaprefix=metaprefix, converter=conv_in)
                if record_set(again) != Model(want2, ":").record_set():
                    fails.append(("supplied-converter-not-read-at-call-time", f"{where}; then the supplied converter learnt {learnt!r}: the same call returns {sorted((r.prefix, r.uri_prefix) for r in again.records)}, reference {[(r.prefix, r.uri_prefix) for r in want2]}"))
            except ValueError:
                pass   # the discovered prefix cannot be added to the supplied converter (it clashes): nothing to check
    if ctx is not None:
        ctx.digest((seq, di, cutoff, metaprefix, ei, sorted((r.prefix, r.uri_prefix) for r in res.records)))
        ctx.state(hash(canon(res)))
        if not fails:
            ctx.count("validated")
    return fails


def sweep_cases():
    """Breadth sweeps (mc/sweeps.py): n discovered prefixes for n up to 130 (numbering thresholds), every token inside a URI
    prefix / as identifier, twin strings as different prefixes."""
    from .. import sweeps

    out = []

    def add(seq, **kw):
        base = {"seq": list(seq), "delims": 0, "cutoff": None, "metaprefix": "ns", "existing": 0}
        base.update(kw)
        out.append(base)

    for n in sweeps.COUNTS:
        uris = [f"h:/g{i}/1" for i in range(n)]
        add(uris)
        add(uris[::-1], metaprefix="q")
        add(uris + [f"h:/g{i}/2" for i in range(0, n, 2)], cutoff=2)
        add([f"h:/g/{i}" for i in range(n)], cutoff=n)            # one prefix with exactly n distinct identifiers
        add([f"h:/g/{i}" for i in range(n)], cutoff=n + 1)
    for t in sweeps.TOKENS:
        for seq in ([f"h:/{t}/1", f"h:/{t}/2", f"h:/a/{t}"], [f"h:/a{t}b_1", f"h:/a{t}b_2", "h:/c/1"], [f"{t}h:/a/1", f"h:/a/1{t}", f"h:/a/{t}1"], [f"h:/a/{t}", f"h:/a#{t}", f"h:/a_{t}"]):
            add(seq)
            add(seq, cutoff=2, existing=1)
    for t in sweeps.TOKENS:
        if t:
            # the token as (only) delimiter; identifiers made of alphanumerics, also of the token's own last character
            last = t[-1] if t[-1].isalnum() else "k"
            seq = [f"h:/a{t}1", f"h:/a{t}2", f"h:/b{t}00{last}1", f"h:/b{t}{last}{last}", f"h:/c{t}x{t}y", "h:/nothing"]
            add(seq, delims=[t])
            add(seq, delims=[t, "/"], cutoff=2)
    # delimiter lists that contain the empty string (it delimits nothing)
    for dl in ([""], ["/", ""], ["", "/"], ["_", "", "/"]):
        add(["h:/a/1", "h:/a/b_2", "h:/a/x-y", "nodelim"], delims=dl)
        add(["h:/a/1", "h:/a/b_2", "h:/a/x-y", "nodelim"], delims=dl, cutoff=1, existing=1)
    for x, y in list(sweeps.TWINS) + list(sweeps.URL_TWINS):
        add([f"h:/{x}/1", f"h:/{y}/1"])
        add([f"{x}1", f"{y}1", f"{x}2"]) if x.startswith(("http", "urn")) else add([f"h:/a/{x}", f"h:/a/{y}"], cutoff=2)
    return out


GITHUB_URIS = ["https://github.com/biopragmatics/curies/issues/12", "https://github.com/acme/known-issues/blob/main/README", "https://github.community/t/tissues/1234"]


def check_github():
    """URIs that start with 'https://github.com' and contain 'issues' are ordinary URIs for the statement; discover has an
    (acknowledged) special case that drops them.  A listed finding (known_findings.json): its own unit, its own signature."""
    fails = []
    for u in GITHUB_URIS:
        res = discover([u, u[:-1] + "9"])
        c = res.compress(u)
        if c is None or res.expand(c) != u:
            fails.append(("github-issues-special-case/learnable-uri-dropped", f"discover([{u!r}, ...]) returns {[(r.prefix, r.uri_prefix) for r in res.records]}: compress({u!r}) = {c!r}"))
            break
    return fails


def units(tier, seed):
    k_full = 3
    sets = [list(s) for n in range(0, k_full + 1) for s in it.combinations(range(len(URIS)), n)]
    us = [{"kind": "full", "sets": ch, "maxlen": 4 if tier == "thorough" else 3} for ch in chunks(sets, 96)]
    sets4 = [list(s) for s in it.combinations(range(len(URIS)), 4)]
    us += [{"kind": "full" if tier == "thorough" else "light", "sets": ch, "maxlen": 4} for ch in chunks(sets4, 128)]
    us += [{"kind": "sweep", "part": i, "of": 8} for i in range(8)]
    us.append({"kind": "github"})
    return us


def run_unit(unit, ctx):
    if unit["kind"] == "github":
        ctx.count("transitions", len(GITHUB_URIS))
        for sig, msg in check_github():
            ctx.violation("C19/" + sig, msg, {"kind": "github"})
        return
    if unit["kind"] == "sweep":
        for i, case in enumerate(sweep_cases()):
            if i % unit["of"] != unit["part"]:
                continue
            ctx.count("sweep_cases")
            for sig, msg in replay(case, ctx)[:2]:
                ctx.violation(sig, msg, case)
        return
    grid = param_grid(unit["kind"] == "full")
    for idxs in unit["sets"]:
        S = [URIS[i] for i in idxs]
        for di, cutoff, mp, ei in grid:
            want = reference(S, DELIMS[di], cutoff, mp, EXISTING[ei])
            if len(want[0]) >= 1:
                ctx.count("cases_with_nonempty_result")
            if cutoff and len(want[1]) > len(want[0]):
                ctx.count("cases_where_cutoff_drops_a_prefix")
            nseq = 0
            for seq in (sequences_with_support(S, unit["maxlen"]) if S else [()]):
                nseq += 1
                fails = check(seq, di, cutoff, mp, ei, ctx, want)
                if len(seq) > len(S):
                    ctx.count("sequences_with_repetition")
                if fails:
                    case = {"seq": list(seq), "delims": di, "cutoff": cutoff, "metaprefix": mp, "existing": ei}
                    for sig, msg in fails[:2]:
                        ctx.violation("C19/" + sig, msg, case)
                ctx.outcome(zlib.crc32(repr((sorted(S), di, cutoff, mp, ei, [(r.prefix, r.uri_prefix) for r in want[0]])).encode()))
            if nseq > 1 and len(want[0]) >= 2:
                ctx.distinct(hash((tuple(idxs), di, cutoff, mp, ei)))
        if len(S) >= 2:
            ctx.sample({"seq": S, "delims": 0, "cutoff": None, "metaprefix": "ns", "existing": 0})


def replay(case, ctx=None):
    if case.get("kind") == "github":
        return [("C19/" + s, m) for s, m in check_github()]
    return [("C19/" + s, m) for s, m in check(tuple(case["seq"]), case["delims"], case["cutoff"], case["metaprefix"], case["existing"], ctx)]


def describe(tier):
    return {
        "level": "model_checking",
        "rule": f"25-string URI alphabet (nested prefixes, '#', '/', '_' tails, non-alphanumeric and empty tails, delimiter-free, empty, non-ASCII); every "
        f"set of <=3 URIs x every sequence of length <= {4 if tier == 'thorough' else 3} with exactly that support (all orders and repetitions) x 5 delimiter "
        "lists (two with multi-character delimiters) x cutoff in {None,0,1,2,3} x 2 metaprefixes x without / with one of three pre-existing converters (one whose prefixes look like generated names); lists and one-shot generators; every 4-element set in every order with "
        f"{'the full' if tier == 'thorough' else 'two'} parameter combination(s); result compared with the reference grouping of the SET; "
        "distinct_nontrivial = (set, parameters) cases with >= 2 discovered prefixes and >= 2 sequences",
        "bounds": {"set_size": 4, "sequence_len": 4 if tier == "thorough" else 3, "alphabet": len(URIS)},
        "exhaustive": True,
        "assumptions": ["GitHub issue URLs (special-cased by the implementation) are outside the alphabet",
                        "hash-seed independence is exercised by the thorough tier re-running the sweep under PYTHONHASHSEED 1 and 2 and comparing result digests"],
    }


def required_counters(tier):
    return ["validated", "cases_with_nonempty_result", "cases_where_cutoff_drops_a_prefix", "sequences_with_repetition", "learned_uris_round_tripped"]
