"""C17 - the resolver redirects exactly where expand points, on both web frameworks.

Every request path /<prefix><delimiter><identifier> - prefix known, synonym or unknown; identifier of 1..3 URL-path-safe
segments, some containing the delimiter once or twice, joined by '/' - is sent to a Flask app and a FastAPI app built
from the same converter (in-process test clients), for three converters and both delimiters.
"""

from __future__ import annotations

import itertools as it

from ..engine import chunks
from ..impl import Converter, curies, to_record
from ..refmodel import Model, mrec

PROP = "C17"

CONVERTERS = [
    [mrec("GO", "http://purl/GO_", ["gomf"], [], "^\\d{7}$"), mrec("doi", "https://doi.org/")],   # the (experimental) pattern plays no role in resolving
    [mrec("go", "http://x/go:"), mrec("GO", "http://y/GO/", ["G.O"])],
    [mrec("a.b", "http://ab/", ["a-b", "a_b"], ["http://ab2/"])],
    [],   # a resolver over an empty converter knows no prefix: every request answers 422
    # URI prefixes without an authority part; the CURIE prefix 'urn' is NOT registered although 'urn:lsid:' is a URI prefix
    [mrec("lsid", "urn:lsid:", ["ls"]), mrec("t", "/terms/"), mrec("GO", "http://go/")],
    # prefixes spelled like paths a web framework may serve on its own (Flask's /static/<path>, FastAPI's /docs, /redoc, /openapi.json)
    [mrec("static", "http://s/", ["docs"]), mrec("openapi.json", "http://o/", ["redoc"])],
    # a URI-prefix synonym of one record lies below the canonical URI prefix of another: expansions of the latter look like URIs of the former
    [mrec("obo", "http://p/obo/"), mrec("GO", "http://amigo/GO:", [], ["http://p/obo/GO_", "http://p/obo/x_"]), mrec("ab", "http://p/obo/ab", [], ["http://p/obo/1"])],
    # the https twin of the canonical URI prefix is a synonym (and the other way round)
    [mrec("tw", "http://tw/", ["TW"], ["https://tw/"]), mrec("wt", "https://wt/", [], ["http://wt/", "HTTP://WT/"])],
    # served by a subclass that uses the documented standardize_identifier hook (index in HOOKED): "the expansion of that CURIE" is
    # what expand() returns, hook included
    [mrec("hk", "http://hk/", ["HK"]), mrec("doi", "https://doi.org/")],
]
HOOKED = {8}
UNKNOWN = ["zz", "Go", "urn", "static", "docs", "favicon.ico"]
SEGMENTS = ["1", "ab", "10.1", "x_y", "a:b", "a:b:c", ":5", "1::2", "5:", "lsid:7", "GO_1"]   # the last three: leading / doubled / trailing delimiter
DELIMS = [":", "/"]
SAFE_PUNCT = list("-._~!$&'()*+,;=:@")


def identifiers(maxseg):
    out = []
    for n in range(1, maxseg + 1):
        for segs in it.product(SEGMENTS, repeat=n):
            out.append("/".join(segs))
    return out


CASE_RECORDS = [mrec("bao", "http://www.BioAssayOntology.org/bao#BAO_"), mrec("up", "HTTPS://up.example/x/"), mrec("URN", "URN:x:")]


def check_location_case(d):
    """Location must equal the expansion also when the URI prefix writes scheme or host with capital letters.  Werkzeug passes
    every Location through an urlsplit / urlunsplit round trip that lower-cases both - a listed finding (known_findings.json)
    with its own unit and signature; anything else that differs here is reported under the ordinary signatures."""
    from curies.resolver_service import get_fastapi_app, get_flask_app

    fails = []
    conv = Converter([to_record(r) for r in CASE_RECORDS], delimiter=d)
    fl, fa = get_flask_app(conv).test_client(), AsgiClient(get_fastapi_app(conv))
    for r in CASE_RECORDS:
        path = "/" + r.prefix + d + "0000001"
        want = (302, r.uri_prefix + "0000001")
        r1 = fl.get(path)
        got1 = (r1.status_code, r1.headers.get("Location"))
        r2 = fa.get(path)
        got2 = (r2.status_code, r2.headers.get("location"))
        if got2 != want:
            fails.append(("fastapi/location-differs-from-expand", f"delimiter {d!r} GET {path}: fastapi answered {got2}, expected {want}"))
        if got1 != want:
            lowered = got1[0] == 302 and got1[1] is not None and got1[1].lower() == want[1].lower()
            fails.append(("flask/location-scheme-or-host-lower-cased" if lowered else "flask/location-differs-from-expand", f"delimiter {d!r} GET {path}: flask answered {got1}, expected {want}"))
    return fails


def units(tier, seed):
    ids = identifiers(3 if tier == "quick" else 4)
    us = []
    for ci in range(len(CONVERTERS)):
        for d in DELIMS:
            mine = ids if ci < 3 else [i for i in ids if i.count("/") <= 1]   # the empty, the URN and the framework-path converter: <= 2 segments
            for ch in chunks(mine, (8 if tier == "quick" else 32) if ci < 3 else 2):
                us.append({"conv": ci, "delim": d, "ids": ch})
    us += [{"kind": "shared", "delim": d} for d in DELIMS]
    us += [{"kind": "location-case", "delim": d} for d in DELIMS]
    # breadth sweep: every URL-path-safe punctuation character (RFC 3986 unreserved / sub-delims / ':' / '@') inside, before and
    # after a segment, alone and in a two-segment identifier
    sw = []
    for c in SAFE_PUNCT:
        sw += ["a" + c + "b", c + "1", "1" + c, c + c, "x/" + "a" + c + "b", "a" + c + "b/y"]
    sw = [i for i in dict.fromkeys(sw) if not any(seg in (".", "..") for seg in i.split("/"))]
    for ci in (0, 1, 2, 4):
        for d in DELIMS:
            for ch in chunks(sw, 2):
                us.append({"conv": ci, "delim": d, "ids": ch})
    for d in DELIMS:
        us.append({"conv": 8, "delim": d, "ids": ["X1", "bad", "y", "Xab/1", "1", "X", "XX2", "1/X2", "b" + d + "1"]})
    # identifiers spelled like the sub-paths a framework serves below its own routes
    for ci in (0, 5):
        for d in DELIMS:
            us.append({"conv": ci, "delim": d, "ids": ["oauth2-redirect", "oauth2-redirect/x", "index.html", "swagger-ui.css", "favicon.ico", "static/x.js"]})
    return us


_APPS = {}


class AsgiClient:
    """Minimal in-process ASGI client (GET only). starlette's TestClient parses the Location header as a URL and
    cannot represent e.g. 'urn:lsid:a/b'; here the response head is read as sent."""

    class R:
        def __init__(self, status, headers):
            self.status_code, self.headers = status, headers

    def __init__(self, app):
        self.app = app

    def get(self, path, follow_redirects=False):
        import asyncio

        out = {}
        scope = {"type": "http", "asgi": {"version": "3.0"}, "http_version": "1.1", "method": "GET", "scheme": "http", "path": path,
                 "raw_path": path.encode(), "query_string": b"", "headers": [(b"host", b"testserver")], "client": ("testclient", 50000),
                 "server": ("testserver", 80), "root_path": ""}

        async def receive():
            return {"type": "http.request", "body": b"", "more_body": False}

        async def send(msg):
            if msg["type"] == "http.response.start":
                out["status"] = msg["status"]
                out["headers"] = {k.decode().lower(): v.decode() for k, v in msg["headers"]}

        asyncio.run(self.app(scope, receive, send))
        return AsgiClient.R(out["status"], out["headers"])


def apps(ci, d):
    key = (ci, d)
    if key not in _APPS:
        from curies.resolver_service import get_fastapi_app, get_flask_app
        TestClient = AsgiClient

        if ci in HOOKED:
            from ..impl import HookedConverter

            conv = HookedConverter([to_record(r) for r in CONVERTERS[ci]], delimiter=d)
        else:
            conv = Converter([to_record(r) for r in CONVERTERS[ci]], delimiter=d)
        # the same resolver mounted by hand from the blueprint / router entry points
        import fastapi
        import flask
        from curies.resolver_service import get_fastapi_router, get_flask_blueprint

        fapp = flask.Flask("mounted", static_folder=None)   # the host application decides about its own routes; a bare one has none
        fapp.register_blueprint(get_flask_blueprint(conv))
        sapp = fastapi.FastAPI(docs_url=None, redoc_url=None, openapi_url=None)   # a bare host application: its own routes are the host's business
        sapp.include_router(get_fastapi_router(conv))
        # ... and the apps mounted under a URL prefix through the documented pass-through keyword arguments
        fpre = get_flask_app(conv, register_kwargs={"url_prefix": "/r"}).test_client()
        spre = TestClient(get_fastapi_app(conv, include_kwargs={"prefix": "/r"}))
        _APPS[key] = (conv, get_flask_app(conv).test_client(), TestClient(get_fastapi_app(conv)), fapp.test_client(), TestClient(sapp), fpre, spre)
    return _APPS[key]


def check(ci, d, prefix, identifier, ctx=None):
    fails = []
    conv, flask_client, fast_client, flask_mounted, fast_mounted, flask_prefixed, fast_prefixed = apps(ci, d)
    if ci in HOOKED:
        from ..impl import ident_hook

        model = Model(CONVERTERS[ci], d, hook=ident_hook)
    else:
        model = Model(CONVERTERS[ci], d)
    path = "/" + prefix + d + identifier
    want_loc = model.expand_pair(prefix, identifier) if (d != "/" and ci not in HOOKED) else model.expand(prefix + d + identifier)
    # (with '/' as delimiter the request path itself is split at the first '/', like any CURIE)
    want = (302, want_loc) if want_loc is not None else (422, None)
    where = f"converter {ci} delimiter {d!r} GET {path}"
    r1 = flask_client.get(path)
    got1 = (r1.status_code, r1.headers.get("Location"))
    r2 = fast_client.get(path, follow_redirects=False)
    got2 = (r2.status_code, r2.headers.get("location"))
    if ctx is not None:
        ctx.count("transitions", 2)
        ctx.count("evaluations", 2)
        ctx.outcome(want)
    extra = []
    if identifier.count("/") == 0 or want[0] == 422:
        r3 = flask_mounted.get(path)
        r4 = fast_mounted.get(path, follow_redirects=False)
        r5 = flask_prefixed.get("/r" + path)
        r6 = fast_prefixed.get("/r" + path, follow_redirects=False)
        extra = [("flask-blueprint", (r3.status_code, r3.headers.get("Location"))), ("fastapi-router", (r4.status_code, r4.headers.get("location"))),
                 ("flask-url_prefix", (r5.status_code, r5.headers.get("Location"))), ("fastapi-url_prefix", (r6.status_code, r6.headers.get("location")))]
        if ctx is not None:
            ctx.count("transitions", 2)
            ctx.count("requests_to_hand_mounted_apps", 4)
    for name, got in [("flask", got1), ("fastapi", got2)] + extra:
        if got != want:
            if want[0] == 302 and got[0] != 302:
                kind = f"known-prefix-not-redirected/{got[0]}"
            elif want[0] == 422:
                kind = f"unknown-prefix-not-422/{got[0]}"
            else:
                kind = "location-differs-from-expand"
            fails.append((f"{name}/{kind}", f"{where}: {name} answered {got}, expected {want}"))
    if got1 != got2:
        fails.append(("frameworks-disagree", f"{where}: flask {got1}, fastapi {got2}"))
    if want_loc is not None and conv.expand(prefix + d + identifier) != want_loc:
        fails.append(("expand-differs-from-reference", f"{where}: expand gives {conv.expand(prefix + d + identifier)!r}"))
    if ctx is not None:
        if not fails:
            ctx.count("validated")
        if want[0] == 302:
            ctx.count("redirects")
            if "/" in identifier:
                ctx.count("redirects_identifier_with_slash")
            if d in identifier:
                ctx.count("redirects_identifier_with_delimiter")
                ctx.distinct(hash((ci, d, prefix, identifier)))
        else:
            ctx.count("unknown_prefix")
    return fails


def check_shared_process(d, ctx=None):
    """Several resolver apps live in one process, and an app's converter may change after requests were served:
    every answer must come from the app's own, current converter."""
    from curies.resolver_service import get_fastapi_app, get_flask_app
    TestClient = AsgiClient

    fails = []
    convs = [Converter([to_record(r) for r in recs], delimiter=d) for recs in CONVERTERS[:3]]
    clients = [(get_flask_app(c).test_client(), TestClient(get_fastapi_app(c))) for c in convs]
    prefixes = ["GO", "go", "doi", "a.b", "gomf", "zz"]
    idents = ["1", "10.1/x", "a:b"]

    def sweep(label):
        for rnd in range(2):
            for ci, (fl, fa) in enumerate(clients):
                model = Model([mrec(r.prefix, r.uri_prefix, r.prefix_synonyms, r.uri_prefix_synonyms) for r in convs[ci].records], d)
                for p in prefixes + ["late"]:
                    for i in idents:
                        path = "/" + p + d + i
                        loc = model.expand(p + d + i)
                        want = (302, loc) if loc is not None else (422, None)
                        r1 = fl.get(path)
                        r2 = fa.get(path, follow_redirects=False)
                        got1, got2 = (r1.status_code, r1.headers.get("Location")), (r2.status_code, r2.headers.get("location"))
                        if ctx is not None:
                            ctx.count("transitions", 2)
                            ctx.count("shared_process_requests", 2)
                        for name, got in (("flask", got1), ("fastapi", got2)):
                            if got != want:
                                fails.append((f"{name}/answer-not-from-this-apps-current-converter", f"{label}, delimiter {d!r}, app {ci}: GET {path} -> {got}, expected {want}"))
                if fails:
                    return

    sweep("three apps in one process")
    if not fails:
        convs[0].add_prefix("late", "http://late/")                                  # a new prefix after requests were served
        convs[1].add_record(curies.Record(prefix="doi", uri_prefix="http://y/doi/"))  # formerly unknown there
        convs[2].add_prefix("a.b", "http://ab3/", prefix_synonyms=["zz"], merge=True)  # a formerly unknown synonym
        sweep("after the converters gained prefixes")
    return fails


def run_unit(unit, ctx):
    if unit.get("kind") == "location-case":
        ctx.count("transitions", 2 * len(CASE_RECORDS))
        for sig, msg in check_location_case(unit["delim"])[:3]:
            ctx.violation("C17/" + sig, msg, {"kind": "location-case", "delim": unit["delim"]})
        return
    if unit.get("kind") == "shared":
        for sig, msg in check_shared_process(unit["delim"], ctx)[:3]:
            ctx.violation("C17/" + sig, msg, {"kind": "shared", "delim": unit["delim"]})
        return
    ci, d = unit["conv"], unit["delim"]
    model = Model(CONVERTERS[ci], d)
    prefixes = sorted(model.all_prefixes()) + UNKNOWN
    ctx.state(hash((ci, d)))
    for ident in unit["ids"]:
        for p in prefixes:
            fails = check(ci, d, p, ident, ctx)
            if fails:
                case = {"conv": ci, "delim": d, "prefix": p, "identifier": ident}
                for sig, msg in fails[:2]:
                    ctx.violation("C17/" + sig, msg, case)
    ctx.sample({"conv": ci, "delim": d, "prefix": prefixes[0], "identifier": unit["ids"][-1]})


def replay(case):
    if case.get("kind") == "location-case":
        return [("C17/" + s_, m_) for s_, m_ in check_location_case(case["delim"])]
    if case.get("kind") == "shared":
        return [("C17/" + s, m) for s, m in check_shared_process(case["delim"], None)]
    return [("C17/" + s, m) for s, m in check(case["conv"], case["delim"], case["prefix"], case["identifier"], None)]


def describe(tier):
    return {
        "level": "model_checking",
        "rule": "5 converters (one empty; one with URN-style and site-relative URI prefixes; synonyms, case-variant prefixes, prefixes with '.', '-', '_') x delimiters ':' and '/' x Flask and FastAPI test "
        f"clients (get_*_app, and for single-segment identifiers and unknown prefixes also apps mounted by hand from get_flask_blueprint / get_fastapi_router and apps mounted under a URL prefix) x (every registered prefix and synonym + 2 unknown prefixes) x every identifier of 1..{3 if tier == 'quick' else 4} segments over "
        f"{SEGMENTS} joined by '/'; expected status/Location from the reference model; plus, per delimiter, the "
        "three apps side by side in one process queried alternately, before and after their live converters gain prefixes; distinct_nontrivial = redirected requests whose "
        "identifier contains the delimiter; further converters: framework paths, nested synonyms, http/https twins, and one served from a subclass overriding "
        "standardize_identifier (identifiers the hook rewrites / rejects; expected Location = expand of the CURIE, hook included)",
        "bounds": {"segments": 3 if tier == "quick" else 4, "segment_alphabet": SEGMENTS},
        "exhaustive": True,
        "assumptions": ["URL-path-safe segments, no dot-segments, no empty segments (as quantified)", "in-process clients (werkzeug test client; a minimal raw ASGI client for FastAPI, because starlette TestClient cannot represent URN Locations) stand for the HTTP stack"],
    }


def required_counters(tier):
    return ["validated", "shared_process_requests", "requests_to_hand_mounted_apps", "redirects", "redirects_identifier_with_slash", "redirects_identifier_with_delimiter", "unknown_prefix"]
