"""C16 - bulk operations equal element-wise scalar calls and fail atomically.

All tables of 0..R rows over a cell alphabet (convertible / synonym / unknown URIs and CURIEs, delimiter-free, empty,
cells that need CSV quoting), with short and blank rows at every position (fault enumeration: every position of the
first failing row), every column index, header flag, separator, flag combination and operation, are run through the
real pd_* / file_* methods.  Oracle: the scalar method applied per cell; on any raise of a file operation the bytes on
disk must be identical to those before the call.
"""

from __future__ import annotations

import csv
import itertools as it
import os
import shutil
import tempfile

from ..engine import chunks
from ..impl import Converter, Record, curies

PROP = "C16"
_TMP = None

CONVERTERS = [
    lambda: Converter([Record(prefix="a", uri_prefix="http://x/", prefix_synonyms=["A1"], uri_prefix_synonyms=["http://y/"]),
                       Record(prefix="b", uri_prefix="http://z/", uri_prefix_synonyms=["a:q/"]),        # 'a:q/7' is a URI of b and a CURIE of a
                       Record(prefix="c", uri_prefix="http://c/", uri_prefix_synonyms=["http://x/C_"])]),  # nested inside a's URI prefix
    lambda: Converter([Record(prefix="a", uri_prefix="http://x/", prefix_synonyms=["A1"], uri_prefix_synonyms=["http://y/"]), Record(prefix="", uri_prefix="http://d/")], delimiter="/"),
]

def _hooked():
    from ..impl import HookedConverter

    return HookedConverter(CONVERTERS[0]().records)


CONVERTERS.append(_hooked)   # index 2: a subclass using the documented identifier hook (rejects 'y' / 'bad', strips a leading 'X')

def _surrogate():
    # index 3: a URI prefix with a lone surrogate (what json.loads returns for an emoji cut in half); scalar calls work on it
    return Converter([Record(prefix="a", uri_prefix="http://x/"), Record(prefix="sur", uri_prefix="http://s/\ud83d/", prefix_synonyms=["s\ud83d"])])


CONVERTERS.append(_surrogate)

CELLS = ["http://x/1", "http://y/2", "a:1", "A1:2", "http://q/1", "zz:1", "nodelim", "", "http://x/\t1", 'a:"q"', "http://x/1\n2", "a:1\r2", "\ufeffa:1", "a:q/7", "http://x/C_1", "http://x/z9"]   # the last: under a's prefix, sorting after the nested prefix http://x/C_
CELLS_SMALL = ["http://x/1", "A1:2", "zz:1", "", 'a:"q"', "a:1\r2", "\ufeffa:1", "a:q/7"]   # the last starts with a byte-order mark
OTHER = ["k", "has\ttab", 'q"uote', "line\nbreak", "cr\rx", "", "com,ma", " led", "trailed ", " q\"x"]
SHORT = "<short-row>"   # a row with a single cell
BLANK = "<blank-row>"   # an empty line


def tmpdir():
    global _TMP
    if _TMP is None or not os.path.isdir(_TMP):
        _TMP = tempfile.mkdtemp(prefix="c16.", dir="/dev/shm" if os.path.isdir("/dev/shm") else None)
        import atexit

        atexit.register(shutil.rmtree, _TMP, True)
    return _TMP


def cell_for(conv_idx, cell):
    """Adapt the CURIE cells to the converter's delimiter."""
    if conv_idx == 1 and not cell.startswith("http"):
        return cell.replace(":", "/")
    return cell


def rows_of(table, column, conv_idx, shift=0):
    """Concrete rows: the converted column from the table, the other column cycling through quoting-sensitive cells."""
    rows = []
    for i, c in enumerate(table):
        other = OTHER[(i + shift) % len(OTHER)]
        if c == SHORT:
            rows.append([cell_for(conv_idx, "a:1")])
        elif c == BLANK:
            rows.append([])
        else:
            row = [None, None]
            row[column % 2] = cell_for(conv_idx, c)     # column may be a negative index (-1 = last, -2 = first of two)
            row[1 - column % 2] = other
            rows.append(row)
    return rows


def scalar_for(conv, op, ambiguous):
    if op in ("file_compress", "pd_compress"):
        return conv.compress_or_standardize if ambiguous else conv.compress
    if op in ("file_expand", "pd_expand"):
        return conv.expand_or_standardize if ambiguous else conv.expand
    return {"pd_standardize_prefix": conv.standardize_prefix, "pd_standardize_curie": conv.standardize_curie, "pd_standardize_uri": conv.standardize_uri}[op]


def scalar_results(f, cells, strict, passthrough):
    """Per-cell expected values, or the first exception."""
    out = []
    for c in cells:
        try:
            out.append(f(c, strict=strict, passthrough=passthrough))
        except Exception as e:  # noqa
            return None, e, len(out)
    return out, None, None


def check_file(conv_idx, op, table, column, header, sep, strict, passthrough, ambiguous, shift=0, ctx=None):
    fails = []
    conv = CONVERTERS[conv_idx]()
    rows = rows_of(table, column, conv_idx, shift)
    head = [] if header == "blank" else [""] if header == "one-empty-cell" else ["only"] if header == "narrow" else [" h1", " h 2"] if header == "blank-led" else ["#h1", "h 2"] if header == "hash" else ['h"1', "h 2"] if header != "multiline" else ["\ufeffmulti\nline", 'q"']
    path = os.path.join(tmpdir(), f"{os.getpid()}.tsv")
    with open(path, "w", newline="", encoding="utf-8") as fh:
        w = csv.writer(fh, delimiter=sep)
        if header:
            w.writerow(head)
        w.writerows(rows)
    before = open(path, "rb").read()
    where = f"{op}(converter {conv_idx}, column={column}, header={header}, sep={sep!r}, strict={strict}, passthrough={passthrough}, ambiguous={ambiguous}) on rows {rows}"
    f = scalar_for(conv, op, ambiguous)
    # what the scalar calls say, row by row (a short/blank row is a malformed cell when the column does not exist)
    expected, first_fail = [], None
    for i, r in enumerate(rows):
        if not -len(r) <= column < len(r):
            first_fail = (i, IndexError)
            break
        try:
            v = f(r[column], strict=strict, passthrough=passthrough)
        except Exception as e:  # noqa
            first_fail = (i, type(e))
            break
        try:
            (v or "").encode("utf-8")
        except UnicodeEncodeError:
            # a converted cell that no text file can hold (a lone surrogate from the converter's URI prefix): the operation must
            # fail - and like every failing row it must leave the file as it was
            first_fail = (i, UnicodeEncodeError)
            break
        new = list(r)
        new[column] = v if v is not None else ""
        expected.append(new)
    try:
        from pathlib import Path

        arg_path = Path(path) if column == 1 else path               # str and Path alike
        arg_sep = None if (sep == "\t" and header is True) else sep   # the default separator is a tab
        getattr(conv, op)(arg_path, column, sep=arg_sep, header=bool(header), strict=strict, passthrough=passthrough, ambiguous=ambiguous)
        exc = None
    except BaseException as e:  # noqa
        exc = e
    after = open(path, "rb").read()
    if ctx is not None:
        ctx.count("transitions")
        ctx.count("evaluations", len(rows) + 1)
        ctx.state(hash(before))
    if exc is not None:
        if after != before:
            pos = first_fail[0] if first_fail else "?"
            fails.append((f"file-not-atomic/{op}/{type(exc).__name__}", f"{where}: raised {type(exc).__name__} (first failing row {pos}) and the file changed: {after[:80]!r}"))
        if first_fail is None and not (header and not rows and before == b""):
            fails.append((f"file-op-raises-although-scalar-calls-succeed/{op}/{type(exc).__name__}", f"{where}: {type(exc).__name__}: {str(exc)[:80]}"))
        elif first_fail is not None and not isinstance(exc, first_fail[1]):
            fails.append((f"file-op-raises-other-exception/{op}", f"{where}: {type(exc).__name__} instead of {first_fail[1].__name__}"))
        if ctx is not None:
            ctx.count("file_raised")
            if first_fail is not None:
                ctx.count(f"first_failing_row_{first_fail[0]}")
                ctx.distinct(hash((op, tuple(table), column, header, strict, first_fail[0])))
        return fails
    if first_fail is not None:
        fails.append((f"file-op-does-not-raise/{op}", f"{where}: scalar call on row {first_fail[0]} raises {first_fail[1].__name__} but the file operation returned"))
        return fails
    with open(path, newline="", encoding="utf-8") as fh:
        got = list(csv.reader(fh, delimiter=sep))
    want = ([head] if header else []) + expected
    if got != want:
        if header and got[:1] != [head]:
            kind = "header-not-preserved"
        elif len(got) != len(want):
            kind = "row-count-changed"
        elif any(len(g) == len(x) and g[column] != x[column] for g, x in zip(got[1 if header else 0:], want[1 if header else 0:]) if -len(x) <= column < len(x)):
            kind = "converted-column-differs-from-scalar-calls"
        else:
            kind = "other-columns-not-preserved"
        fails.append((f"{kind}/{op}", f"{where}: file now {got}, expected {want}"))
    if ctx is not None:
        ctx.count("file_ok")
        if not fails:
            ctx.count("validated")
    return fails


PD_OPS = ["pd_compress", "pd_expand", "pd_standardize_prefix", "pd_standardize_curie", "pd_standardize_uri"]
PD_CELLS = CELLS + ["a", "A1", "zz"]
PD_SMALL = ["http://x/1", "A1:2", "zz:1", "", "a:q/7", "http://x/C_1", "a"]


def check_pd(conv_idx, op, cells, column_pos, labelled, target, strict, passthrough, ambiguous, index_kind="range", dtype=None, ctx=None):
    import pandas as pd

    fails = []
    conv = CONVERTERS[conv_idx]()
    cells = [cell_for(conv_idx, c) for c in cells]
    rows = []
    for i, c in enumerate(cells):
        row = [None, None, "third"]
        row[column_pos] = c
        row[1 - column_pos] = OTHER[i % len(OTHER)]
        rows.append(row)
    labels = {True: ["c0", "c1", "c2"], False: [0, 1, 2], "shuffled-ints": [2, 0, 1]}[labelled]
    n_ = len(rows)
    index = {"range": None, "reversed": list(range(n_ - 1, -1, -1)), "offset": list(range(10, 10 + n_)), "strings": [f"r{n_ - i}" for i in range(n_)]}[index_kind]
    df = pd.DataFrame(rows, columns=labels, index=index)
    column = labels[column_pos]
    if dtype == "category":
        df[column] = df[column].astype("category")
    elif dtype == "category-unused":
        # a categorical column whose category list still holds values that occur in no row (the state after filtering rows)
        df[column] = pd.Categorical(cells, categories=list(dict.fromkeys(["zz:9", "nodelim"] + cells + ["http://q/7"])))
    elif dtype == "string":
        df[column] = df[column].astype("string")
    tgt = {"none": None, "new": ("t" if labelled is True else 7), "other": labels[1 - column_pos], "empty-label": ""}[target]
    before = df.copy(deep=True)
    f = scalar_for(conv, op, ambiguous)
    expected, err, pos = scalar_results(f, cells, strict, passthrough)
    kw = dict(strict=strict, passthrough=passthrough)
    if op in ("pd_compress", "pd_expand"):
        kw["ambiguous"] = ambiguous
    where = f"{op}(converter {conv_idx}, column={column!r}, target_column={tgt!r}, {kw}) on cells {cells} (index {index_kind}" + (f", dtype {dtype}" if dtype else "") + ")"
    try:
        getattr(conv, op)(df, column=column, target_column=tgt, **kw)
        exc = None
    except Exception as e:  # noqa
        exc = e
    if ctx is not None:
        ctx.count("transitions")
        ctx.count("evaluations", len(cells) + 1)
    if err is not None:
        if exc is None:
            fails.append((f"pd-op-does-not-raise/{op}", f"{where}: scalar call raises {type(err).__name__} on row {pos}"))
        elif type(exc) is not type(err):
            fails.append((f"pd-op-raises-other-exception/{op}", f"{where}: {type(exc).__name__} instead of {type(err).__name__}"))
        if ctx is not None:
            ctx.count("pd_raised")
        return fails
    if exc is not None:
        return [(f"pd-op-raises-although-scalar-calls-succeed/{op}/{type(exc).__name__}", f"{where}: {type(exc).__name__}: {str(exc)[:80]}")]
    out_col = column if tgt is None else tgt
    if out_col not in df.columns:
        return [(f"target-column-missing/{op}", f"{where}: columns {list(df.columns)}")]
    got = df[out_col].tolist()
    ok = len(got) == len(expected) and all((pd.isna(g) if e is None else (not isinstance(g, float) and g == e)) for g, e in zip(got, expected))
    if not ok:
        fails.append((f"converted-column-differs-from-scalar-calls/{op}", f"{where}: column {out_col!r} = {got}, scalar calls give {expected}"))
    for lab in before.columns:
        if lab == out_col:
            continue
        if df[lab].tolist() != before[lab].tolist():
            kind = "source-column-not-intact" if lab == column else "other-columns-not-preserved"
            fails.append((f"{kind}/{op}", f"{where}: column {lab!r} changed from {before[lab].tolist()} to {df[lab].tolist()}"))
    if list(df.index) != list(before.index) or [c for c in df.columns if c != out_col] != [c for c in before.columns if c != out_col]:
        fails.append((f"row-or-column-order-changed/{op}", f"{where}"))
    if ctx is not None:
        ctx.count("pd_ok")
        if any(e is None for e in expected):
            ctx.count("pd_with_missing_results")
        if not fails:
            ctx.count("validated")
    return fails


# ---- enumeration ------------------------------------------------------------------------------------------------------
def tables(tier):
    full = 2 if tier == "quick" else 3
    out = []
    for r in range(0, full + 1):
        out.extend(it.product(CELLS, repeat=r))
    small_r = full + 1
    out.extend(it.product(CELLS_SMALL, repeat=small_r))
    # malformed rows (short / blank) at every position among up to 3 good rows
    good = ["http://x/1", "a:1", "zz:1"]
    for n in range(0, 4):
        for base in it.product(good[:2] if n == 3 else good, repeat=n):
            for pos in range(n + 1):
                for bad in (SHORT, BLANK):
                    out.append(tuple(base[:pos]) + (bad,) + tuple(base[pos:]))
    return [list(t) for t in out]


FLAGS = list(it.product((False, True), repeat=3))


def extra_file_cases():
    """Second, smaller table set with more dimensions: negative column indexes, a header and cells that start with '#'."""
    X = ["http://x/1", "zz:1", "#a:1", "a:1", SHORT, BLANK]
    tabs = [()] + [(c,) for c in CELLS + ["#a:1", "#http://x/1", "#"]] + list(it.product(X, repeat=2))
    for table in tabs:
        for op in ("file_compress", "file_expand"):
            for column in (-1, -2, 0, 1):
                for header in (True, False, "multiline", "hash"):
                    if column >= 0 and header != "hash" and not any(str(c).startswith("#") for c in table):
                        continue   # covered by the main table set
                    for strict, passthrough, ambiguous in FLAGS:
                        yield 0, op, list(table), column, header, "\t", strict, passthrough, ambiguous
    # cells, other-column cells and header cells that begin or end with a blank, with both separators; a header narrower than the rows
    Y = [" http://x/1", "http://x/1 ", " a:1", "a:1", "zz:1", ""]
    for table in [(c,) for c in Y] + list(it.product(Y[:4], repeat=2)):
        for op in ("file_compress", "file_expand"):
            for column in (0, 1):
                for header in (True, False, "blank-led", "narrow", "blank", "one-empty-cell"):
                    for sep in ("\t", ","):
                        for strict, passthrough, ambiguous in FLAGS:
                            yield 0, op, list(table), column, header, sep, strict, passthrough, ambiguous, 7
    # converted cells that cannot be encoded, at every position among good rows
    W = ["a:1", "sur:1", "zz:1"]
    for table in [(c,) for c in W] + list(it.product(W, repeat=2)) + [("a:1", "a:1", "sur:1"), ("a:1", "sur:1", "a:1")]:
        for header in (True, False):
            for strict, passthrough, ambiguous in FLAGS:
                if not strict:
                    yield 3, "file_expand", list(table), 0, header, "\t", strict, passthrough, ambiguous
    # a subclass with the identifier hook: cells the hook rewrites or rejects
    Z = ["a:X1", "a:bad", "a:y", "A1:Xy", "http://x/X1", "http://x/bad", "a:1"]
    for table in [(c,) for c in Z] + list(it.product(Z[:5], repeat=2)):
        for op in ("file_compress", "file_expand"):
            for strict, passthrough, ambiguous in FLAGS:
                yield 2, op, list(table), 0, True, "\t", strict, passthrough, ambiguous


def units(tier, seed):
    T = tables(tier)
    us = [{"kind": "file", "tier": tier, "tables": ch} for ch in chunks(T, 96)]
    us += [{"kind": "file-extra", "part": i, "of": 8} for i in range(8)]
    us += [{"kind": "pd", "tier": tier, "part": i, "of": 32} for i in range(32)]
    us.append({"kind": "history"})
    return us


def file_cases(table):
    for conv_idx in (0, 1):
        for op in ("file_compress", "file_expand"):
            for column in (0, 1):
                for header in (True, False, "multiline"):
                    for sep in ("\t", ","):
                        if conv_idx == 1 and sep == ",":
                            continue
                        for strict, passthrough, ambiguous in FLAGS:
                            yield conv_idx, op, table, column, header, sep, strict, passthrough, ambiguous


def pd_cases(tier):
    maxr = 2 if tier == "quick" else 3
    tabs = [list(t) for r in range(0, maxr + 1) for t in it.product(PD_CELLS if r < 2 else PD_SMALL, repeat=r)]
    for cells in tabs:
        for op in PD_OPS:
            for column_pos in (0, 1):
                for labelled in (True, False, "shuffled-ints"):
                    for target in ("none", "new", "other") + (("empty-label",) if labelled is True else ()):
                        for strict, passthrough, ambiguous in FLAGS:
                            if ambiguous and op not in ("pd_compress", "pd_expand"):
                                continue
                            for index_kind in (("range", "reversed", "offset", "strings") if len(cells) >= 2 and target in ("none", "new") else ("range",)):
                                yield 0, op, cells, column_pos, labelled, target, strict, passthrough, ambiguous, index_kind
    # column dtypes other than object: categorical (all categories used / some unused), pandas' string dtype
    D = ["http://x/1", "A1:2", "a:1", "a"]
    for cells in [[c] for c in D] + [list(t) for t in it.product(D, repeat=2)]:
        for op in PD_OPS:
            for dtype in ("category", "category-unused", "string"):
                for strict, passthrough, ambiguous in FLAGS:
                    if ambiguous and op not in ("pd_compress", "pd_expand"):
                        continue
                    yield 0, op, cells, 0, True, "new", strict, passthrough, ambiguous, "range", dtype
    Z = ["a:X1", "a:bad", "a:y", "A1:Xy", "http://x/X1", "http://x/bad", "a:1"]
    for cells in [[c] for c in Z] + [list(t) for t in it.product(Z[:5], repeat=2)]:
        for op in PD_OPS:
            for strict, passthrough, ambiguous in FLAGS:
                if ambiguous and op not in ("pd_compress", "pd_expand"):
                    continue
                yield 2, op, cells, 0, True, "none", strict, passthrough, ambiguous, "range"


def run_unit(unit, ctx):
    if unit["kind"] == "history":
        for op in ("file_compress", "file_expand") + tuple(PD_OPS):
            for passthrough in (False, True):
                for ambiguous in ((False, True) if op in ("file_compress", "file_expand", "pd_compress", "pd_expand") else (False,)):
                    args = [op, passthrough, ambiguous]
                    for sig, msg in check_history(*args, ctx=ctx)[:2]:
                        ctx.violation("C16/" + sig, msg, {"kind": "history", "args": args})
        return
    if unit["kind"] == "file-extra":
        for i, args in enumerate(extra_file_cases()):
            if i % unit["of"] != unit["part"]:
                continue
            ctx.count("file_extra_cases")
            fails = check_file(*args, ctx=ctx)
            if fails:
                case = {"kind": "file", "args": list(args)}
                for sig, msg in fails[:2]:
                    ctx.violation("C16/" + sig, msg, case)
        return
    if unit["kind"] == "file":
        for table in unit["tables"]:
            for args in file_cases(table):
                fails = check_file(*args, ctx=ctx)
                if fails:
                    case = {"kind": "file", "args": list(args)}
                    for sig, msg in fails[:2]:
                        ctx.violation("C16/" + sig, msg, case)
        if unit["tables"]:
            ctx.sample({"kind": "file", "table": unit["tables"][-1]})
    else:
        for i, args in enumerate(pd_cases(unit["tier"])):
            if i % unit["of"] != unit["part"]:
                continue
            fails = check_pd(*args, ctx=ctx)
            if fails:
                case = {"kind": "pd", "args": list(args)}
                for sig, msg in fails[:2]:
                    ctx.violation("C16/" + sig, msg, case)


def check_history(op, passthrough, ambiguous, ctx=None):
    """Bulk call, then the live converter learns the unknown prefix / URI prefix through a merge, then the same bulk call
    again: every bulk result must equal the scalar results of a converter freshly built from the current records."""
    import copy

    import pandas as pd

    fails = []
    conv = CONVERTERS[0]()
    cells = ["zz:1", "http://q/1", "a:1", "zz", "http://x/1"]
    steps = [None,
             lambda: conv.add_prefix("a", "http://x/", prefix_synonyms=["zz"], merge=True),
             lambda: conv.add_record(Record(prefix="a", uri_prefix="http://q/"), merge=True),
             lambda: conv.add_prefix("brandnew", "http://brandnew/")]
    for i, step in enumerate(steps):
        if step is not None:
            step()
        fresh = Converter(copy.deepcopy(conv.records))
        expected, err, _ = scalar_results(scalar_for(fresh, op, ambiguous), cells, False, passthrough)
        where = f"{op}(passthrough={passthrough}, ambiguous={ambiguous}) after {i} modification(s) of the live converter, cells {cells}"
        if op.startswith("pd_"):
            df = pd.DataFrame([[c, "k"] for c in cells], columns=["c0", "c1"])
            kw = dict(strict=False, passthrough=passthrough)
            if op in ("pd_compress", "pd_expand"):
                kw["ambiguous"] = ambiguous
            getattr(conv, op)(df, column="c0", **kw)
            got = [None if pd.isna(v) else v for v in df["c0"].tolist()]
        else:
            path = os.path.join(tmpdir(), f"{os.getpid()}.hist.tsv")
            with open(path, "w", newline="", encoding="utf-8") as fh:
                csv.writer(fh, delimiter="\t").writerows([[c, "k"] for c in cells])
            getattr(conv, op)(path, 0, header=False, strict=False, passthrough=passthrough, ambiguous=ambiguous)
            with open(path, newline="", encoding="utf-8") as fh:
                got = [r[0] or None for r in csv.reader(fh, delimiter="\t")]
            expected = [e or None for e in expected]
        if ctx is not None:
            ctx.count("transitions")
            ctx.count("history_bulk_calls")
        if got != expected:
            fails.append((f"bulk-result-stale-after-converter-changed/{op}", f"{where}: bulk gives {got}, scalar calls on a fresh converter give {expected}"))
            break
    return fails


def replay(case):
    if case["kind"] == "history":
        return [("C16/" + s, m) for s, m in check_history(*case["args"])]
    if case["kind"] == "file":
        f = check_file(*case["args"])
    else:
        f = check_pd(*case["args"])
    return [("C16/" + s, m) for s, m in f]


def describe(tier):
    full = 2 if tier == "quick" else 3
    return {
        "level": "model_checking",
        "rule": f"files: all tables of 0..{full} rows over 12 cell kinds (+ all {full + 1}-row tables over 6 kinds), the other column cycling through 7 "
        "quoting-sensitive cells, plus tables with a short or blank (malformed) row at every position among 0..3 good rows; x 2 converters "
        "(delimiters ':' and '/') x file_compress/file_expand x column index x header flag x separator x 8 flag combinations; data frames: all "
        f"tables of 0..{full} rows x 5 pd_* operations x column position x labelled/integer column labels x target_column in {{None, new, existing "
        "other, empty-string label}} x index in {{default, reversed, offset, string labels}} x flags; bulk call - merge into the live converter - "
        "bulk call again for all 7 operations; expected values from the scalar method per cell; any raise of a file operation must leave the "
        "bytes unchanged; distinct_nontrivial = distinct (operation, table, column, header, strict, position of the first failing row)",
        "bounds": {"rows_full_alphabet": full, "rows_small_alphabet": full + 1},
        "exhaustive": True,
        "assumptions": ["header rows are non-empty", "files are written by the harness with csv.writer(newline='') and parsed back with csv.reader(newline='')"],
    }


def required_counters(tier):
    return ["validated", "file_ok", "file_raised", "first_failing_row_0", "first_failing_row_1", "first_failing_row_2", "pd_ok", "pd_raised", "pd_with_missing_results", "history_bulk_calls"]
