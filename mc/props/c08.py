"""C08 - strict, passthrough and default modes differ only in how failure is reported."""

from __future__ import annotations

import warnings

from . import joint
from ..impl import curies

PROP = "C08"
ReferenceTuple = curies.ReferenceTuple

SP_FUNCS = ["compress", "expand", "compress_or_standardize", "expand_or_standardize", "standardize_prefix", "standardize_curie", "standardize_uri"]
S_FUNCS = ["expand_all", "parse_curie", "parse"]


def qlen(tier):
    return 2 if tier == "quick" else 3


def units(tier, seed):
    us = joint.units(tier, seed, hist_depth=1, hook=True, shared_records=True, empty_delim=True)
    for u in us:
        u["qlen"] = qlen(tier)
    return us


def call(f, *a, **k):
    try:
        with warnings.catch_warnings():
            warnings.simplefilter("ignore")
            v = f(*a, **k)
    except BaseException as e:  # noqa
        return ("e", e)
    if isinstance(v, list):
        v = tuple(v)
    if isinstance(v, tuple) and len(v) == 2 and v[0] is None and v[1] is None:
        v = None  # legacy (None, None) of parse_uri counts as None
    return ("v", v)


def library_value_error(e):
    return isinstance(e, ValueError) and type(e).__module__.split(".")[0] == "curies"


def matrix(fname, f, args, x_passthrough, fails, where, has_passthrough, kw_default=None, counter=None):
    """The mode matrix for one function and one input."""
    kw_default = kw_default or {}
    shown = f"{fname}{args!r}"
    d = call(f, *args, **kw_default)      # the default call: no reporting flag given at all (also for parse)
    if d[0] == "e":
        fails.append((f"default-mode-raises/{fname}/{type(d[1]).__name__}", f"{where}: {shown} raised {type(d[1]).__name__} in default mode"))
        return
    dv = d[1]
    if counter is not None:
        counter[fname + ("_none" if dv is None else "_value")] = counter.get(fname + ("_none" if dv is None else "_value"), 0) + 1
    if has_passthrough:
        p = call(f, *args, passthrough=True, **kw_default)
        want = dv if dv is not None else x_passthrough
        if p[0] == "e":
            fails.append((f"passthrough-raises/{fname}/{type(p[1]).__name__}", f"{where}: {shown} passthrough=True raised {type(p[1]).__name__}"))
        elif p[1] != want:
            kind = "input-not-returned-unchanged" if dv is None else "value-differs-from-default"
            fails.append((f"passthrough/{kind}/{fname}", f"{where}: {shown} passthrough=True -> {p[1]!r}, expected {want!r} (default gives {dv!r})"))
    combos = [dict(strict=True)]
    if has_passthrough:
        combos.append(dict(strict=True, passthrough=True))
    for kw in combos:
        s = call(f, *args, **kw, **kw_default)
        if dv is not None:
            if s[0] == "e":
                fails.append((f"strict-raises-although-default-has-value/{fname}", f"{where}: {shown} {kw} raised {type(s[1]).__name__}, default gives {dv!r}"))
            elif s[1] != dv:
                fails.append((f"strict-value-differs/{fname}", f"{where}: {shown} {kw} -> {s[1]!r}, default {dv!r}"))
        else:
            if s[0] == "v":
                fails.append((f"strict-does-not-raise/{fname}/{'+'.join(sorted(kw))}", f"{where}: {shown} {kw} returned {s[1]!r} although default gives None"))
            elif not library_value_error(s[1]):
                fails.append((f"strict-raises-foreign-exception/{fname}/{type(s[1]).__name__}", f"{where}: {shown} {kw} raised {type(s[1]).__module__}.{type(s[1]).__name__}"))


def check_config(conv, model, Q, fails, where, ctx):
    d = model.delimiter
    counter = {} if ctx is not None else None
    for x in Q:
        for fname in SP_FUNCS:
            matrix(fname, getattr(conv, fname), (x,), x, fails, where, True, counter=counter)
        for fname in S_FUNCS:
            matrix(fname, getattr(conv, fname), (x,), None, fails, where, False, counter=counter)
        matrix("parse_uri", conv.parse_uri, (x,), None, fails, where, False, kw_default={"return_none": True}, counter=counter)
        matrix("parse_uri", conv.parse_uri, (x,), None, fails, where, False, kw_default={"return_none": False}, counter=None)
        if len(fails) > 6:
            break
    for p in joint.prefix_queries() + [""]:
        for i in joint.identifiers():
            matrix("expand_pair", conv.expand_pair, (p, i), p + d + i, fails, where, True, counter=counter)
            matrix("expand_reference", conv.expand_reference, (ReferenceTuple(p, i),), p + d + i, fails, where, True, counter=counter)
            matrix("expand_pair_all", conv.expand_pair_all, (p, i), None, fails, where, False, counter=counter)
    if ctx is not None:
        n = len(Q) * (len(SP_FUNCS) * 4 + len(S_FUNCS) * 2 + 4) + len(joint.prefix_queries()) * len(joint.identifiers()) * 10
        ctx.count("evaluations", n)
        for k, v in counter.items():
            ctx.count("default_" + k, v)
        ctx.distinct(hash(where))


def run_unit(unit, ctx):
    joint.run_unit_with(check_config, PROP, unit, ctx)


def replay(case):
    return joint.replay_with(check_config, PROP, case)


ALL14 = SP_FUNCS + S_FUNCS + ["parse_uri", "expand_pair", "expand_reference", "expand_pair_all"]


def describe(tier):
    return {
        "level": "model_checking",
        "rule": "joint universe (see C03) + states after one add_record/add_prefix; 14 functions x every strict/passthrough combination "
        "each accepts x every string up to length query_len over {a,A,x,X,y,delimiter} + corner strings ('' and delimiter-free included), "
        "resp. 10 prefixes x 8 identifiers for the pair/tuple functions; the default result defines what passthrough/strict must do; "
        "distinct_nontrivial = configurations",
        "bounds": {"records": "<=2 (+3 without synonyms)", "query_len": qlen(tier), "functions": ALL14},
        "exhaustive": True,
        "assumptions": ["'library ValueError' = instance of ValueError whose class is defined in the curies package", "legacy (None, None) of parse_uri counts as None"],
    }


def required_counters(tier):
    return ["configurations", "validated"] + [f"default_{f}_none" for f in ALL14] + [f"default_{f}_value" for f in ALL14]
