"""C20 - W3C validators accept exactly the documented grammar.

The tree of ALL strings up to a length bound over one representative per character class is enumerated and both
validators are compared with a hand-written recogniser (explicit character loops, no regular expressions).
"""

from __future__ import annotations

import itertools as it

from ..impl import curies  # noqa  (bootstraps the import path)

PROP = "C20"
from curies.w3c import is_w3c_curie, is_w3c_prefix  # noqa: E402

SYMBOLS = ["g", "G", "1", "_", ".", "-", ":", "/", "#", " ", "\t", "\n", "\r", "[", "]", "é", "\u2003"]   # the last: non-ASCII whitespace
BOUNDARY = ["0", "9", "a", "Z"]   # ends of the character ranges of the grammar (quick: in addition; thorough: up to length 6)
WS = set(" \t\n\r\x0b\x0c")
LETTERS = set("abcdefghijklmnopqrstuvwxyzABCDEFGHIJKLMNOPQRSTUVWXYZ")
DIGITS = set("0123456789")


def maxlen(tier):
    return 5 if tier == "quick" else 7


def symbols(tier, L):
    """quick: 21 symbols up to length 5; thorough: 17 symbols up to length 7 and 21 symbols up to length 6."""
    return SYMBOLS + BOUNDARY if L <= 6 else SYMBOLS


def ref_prefix(s):
    if not s:
        return False
    c = s[0]
    if c not in LETTERS and c != "_":
        return False
    for c in s[1:]:
        if c not in LETTERS and c not in DIGITS and c not in "._-":
            return False
    return True


def ref_reference(r):
    for c in r:
        if c in WS or c.isspace():
            return False
    return not r.startswith("//")


def ref_curie(s):
    if not s.strip():
        return False
    for c in s:
        if c in WS or c.isspace() or c == "[" or c == "]":
            return False
    head, sep, tail = s.partition(":")
    if not sep:
        return ref_reference(s)
    if head and not ref_prefix(head):
        return False
    return ref_reference(tail)


def classify_prefix(s, got):
    if got:
        if s.endswith("\n"):
            return "prefix-accepted-with-trailing-newline"
        if any(ord(c) > 127 for c in s):
            return "prefix-accepted-with-non-ascii"
        return "prefix-accepted-outside-ncname"
    return "ncname-rejected-as-prefix"


def classify_curie(s, got):
    if got:
        if any(c.isspace() for c in s):
            return "curie-accepted-with-whitespace" if any(c in " \t\n\r" for c in s) else "curie-accepted-with-non-ascii-whitespace"
        if "[" in s or "]" in s:
            return "curie-accepted-with-bracket"
        head, sep, tail = s.partition(":")
        if (tail if sep else s).startswith("//"):
            return "curie-accepted-with-reference-starting-with-double-slash"
        return "curie-accepted-with-invalid-prefix"
    return "valid-curie-rejected"


def check_string(s):
    fails = []
    gp = bool(is_w3c_prefix(s))
    if gp != ref_prefix(s):
        fails.append((classify_prefix(s, gp), f"is_w3c_prefix({s!r}) = {gp}, grammar says {ref_prefix(s)}"))
    gc = bool(is_w3c_curie(s))
    if gc != ref_curie(s):
        fails.append((classify_curie(s, gc), f"is_w3c_curie({s!r}) = {gc}, grammar says {ref_curie(s)}"))
    return fails


def units(tier, seed):
    L = maxlen(tier)
    us = [{"head": "", "only_short": True, "L": L}]
    for a in symbols(tier, L):
        for b in symbols(tier, L):
            us.append({"head": a + b, "L": L})
    if tier == "thorough":
        full = SYMBOLS + BOUNDARY
        for a in full:
            for b in full:
                if a in BOUNDARY or b in BOUNDARY:
                    us.append({"head": a + b, "L": 6, "full": True})
                else:
                    us.append({"head": a + b, "L": 6, "full": True, "need_boundary": True})
    # per seed, the class representatives are rotated (same coverage of classes, different concrete characters)
    # breadth sweep: EVERY code point of the Basic Multilingual Plane (and a few beyond) at every position of 8 templates
    for lo in range(0, 0x10000, 0x1000):
        us.append({"head": f"U+{lo:04X}", "sweep": [lo, lo + 0x1000], "L": L})
    us.append({"head": "astral", "sweep": [0x1F600, 0x1F650], "L": L})
    us.append({"head": "tokens", "tokens": True, "L": L})
    return us


def token_strings():
    """Whole tokens of mc/sweeps.py (names that XML / RDF tooling reserves, percent-escapes, ...) as prefix and as reference,
    and pairs of near-identical prefixes validated one right after the other (the answer is a function of the string alone)."""
    from .. import sweeps

    for t in sweeps.TOKENS:
        for tpl in ("{t}", "{t}:1", "g:{t}", "{t}:{t}", "{t}g:1", "g{t}:x", "_:{t}{t}", "{t}:/1", "{t}://x"):
            yield tpl.replace("{t}", t)
    for a, b in sweeps.TWINS:
        for tpl in ("{}egg:1", "stra{}e:1", "{}:1", "g{}:1", "{}", "g:{}"):
            for x in (a, b, a, b, b, a):
                yield tpl.format(x)


TEMPLATES = ["{c}", "g{c}", "{c}g", "g{c}:1", "g:{c}", "g:1{c}", "{c}:1", "g{c}g:x", "_{c}:{c}", "{c}{c}"]


def sweep_strings(lo, hi):
    for cp in range(lo, hi):
        if 0xD800 <= cp <= 0xDFFF:
            continue
        c = chr(cp)
        for t in TEMPLATES:
            yield t.replace("{c}", c)


ROT = {0: {}, 1: {"g": "a", "G": "Z", "1": "0", "é": "ß"}, 2: {"g": "z", "G": "A", "1": "9", "é": "ñ"}, 3: {"g": "q", "G": "Q", "1": "5", "é": "ü"}, 4: {"g": "b", "G": "Y", "1": "7", "é": "ç"}}


def run_unit(unit, ctx):
    L = unit["L"]
    import os

    rot = ROT.get(int(os.environ.get("VERIF_SEED", "0") or 0) % 5, {})
    tr = str.maketrans(rot) if rot else None
    n = acc_p = acc_c = 0
    syms = SYMBOLS + BOUNDARY if (unit.get("full") or L <= 6) else SYMBOLS
    if unit.get("tokens"):
        cands = token_strings()
        tr = None
    elif unit.get("sweep"):
        cands = sweep_strings(*unit["sweep"])
        tr = None
    elif unit.get("only_short"):
        cands = [""] + SYMBOLS + BOUNDARY
    else:
        head = unit["head"]
        cands = (head + "".join(t) for k in range(0, L - 1) for t in it.product(syms, repeat=k))
        if unit.get("need_boundary"):   # strings without a boundary symbol were already covered by the length-7 sweep
            bset = set(BOUNDARY)
            cands = (c for c in cands if bset.intersection(c))
    for s in cands:
        if tr:
            s = s.translate(tr)
        n += 1
        gp = is_w3c_prefix(s)
        gc = is_w3c_curie(s)
        rp = ref_prefix(s)
        rc = ref_curie(s)
        if gp:
            acc_p += 1
        if gc:
            acc_c += 1
        if bool(gp) != rp or bool(gc) != rc:
            for sig, msg in check_string(s)[:2]:
                ctx.violation("C20/" + sig, msg, {"s": s})
    if unit.get("sweep") or unit.get("tokens"):
        ctx.count("sweep_cases", n)
    ctx.count("evaluations", 2 * n)
    ctx.count("transitions", n)
    ctx.count("strings", n)
    ctx.count("validated", n if not ctx.nviol else 0)
    ctx.count("accepted_prefixes", acc_p)
    ctx.count("accepted_curies", acc_c)
    ctx.count("rejected_curies", n - acc_c)
    ctx.state(hash(unit["head"]))
    ctx.sample({"s": unit["head"] + ":1"})


def finalize(merged, tier, seed):
    # distinct non-trivial = strings accepted by at least one validator (measured), states = strings enumerated
    merged.nontrivial_override = merged.counters.get("accepted_curies", 0)
    merged.states_override = merged.counters.get("strings", 0)


def replay(case):
    return [("C20/" + s, m) for s, m in check_string(case["s"])]


def describe(tier):
    L = maxlen(tier)
    return {
        "level": "model_checking",
        "rule": f"all strings of length <= {L} over one representative per character class {SYMBOLS!r} plus (up to length {min(L, 6)}) the range ends {BOUNDARY!r} (the representative of letter/digit/non-ASCII "
        "classes rotates with VERIF_SEED), i.e. the complete tree of input strings (a node per string, an edge per appended symbol); both "
        "validators compared with a character-loop recogniser; states = strings enumerated; distinct_nontrivial = strings accepted as CURIE",
        "bounds": {"length": L, "symbols": len(SYMBOLS), "boundary_symbols": len(BOUNDARY)},
        "exhaustive": True,
        "assumptions": ["strings longer than the bound and characters outside the class representatives are not covered (the regular expressions are "
                        "per-character classes plus anchoring, so a counterexample, if any, has a short witness); no random longer strings are used - sampling is not a deciding step"],
        "model_binding": "the implementation is called on every enumerated string; the reference recogniser is a separate character-loop "
        "implementation of the documented grammar evaluated on the same string",
    }


def required_counters(tier):
    return ["strings", "accepted_prefixes", "accepted_curies", "rejected_curies"]
