"""C01 - URI compression always picks the longest registered URI prefix, independent of order.

Enumerates every set T of URI-prefix strings over a tiny alphabet, every partition of T into records with every
choice of canonical member, every permutation of the records, four construction modes (constructor; add_record one
by one; constructor + add_record; canonical-only records first and synonyms arriving later by merge) and every
delimiter.  Every resulting real converter is queried with every string up to a length bound and compared with the
reference model's linear longest-prefix scan; all permutations / modes must reach the same canonical state.
"""

from __future__ import annotations

import itertools as it
import warnings

from ..engine import chunks
from ..impl import Converter, Record, canon, model_of, to_record
from ..refmodel import Model, mrec
from ..universe import recs_from_json, recs_to_json, set_partitions, strings

PROP = "C01"
UNIT_TIMEOUT = 900

SIGMA_U = ["x", "y", ":"]
NAMES = ["a", "b", "c", "d"]
DELIMS = [":", "/", "::"]
MODES = ["ctor", "incremental", "ctor+add", "synonyms-late", "shared-list", "first-of-a-chain", "shallow-copy"]


def bounds(tier):
    if tier == "quick":
        return {"max_T": 3, "uri_len": 2, "query_len": 4, "probe_len": 3, "full_query_all_variants": False}
    return {"max_T": 4, "uri_len": 2, "query_len": 5, "probe_len": 3, "full_query_all_variants": True, "max_T_len3": 2}


def shapes_for(T):
    """All ways of turning the set T of URI strings into records: partition + canonical choice per block."""
    for part in set_partitions(list(T), max_blocks=len(NAMES)):
        choices = [list(range(len(block))) for block in part]
        for pick in it.product(*choices):
            recs = []
            for name, block, k in zip(NAMES, part, pick):
                canonical = block[k]
                syn = [s for i, s in enumerate(block) if i != k]
                recs.append(mrec(name, canonical, (), syn))
            yield recs


def all_T(tier):
    b = bounds(tier)
    base = list(strings(SIGMA_U, b["uri_len"]))
    out = []
    for n in range(1, b["max_T"] + 1):
        out.extend(it.combinations(base, n))
    if tier == "thorough":
        long = list(strings(SIGMA_U, 3))
        seen = set(map(frozenset, out))
        for n in range(1, b["max_T_len3"] + 1):
            for T in it.combinations(long, n):
                if frozenset(T) not in seen:
                    out.append(T)
    return out


OTHER_SEPARATORS = ["#", "/", "_", "=", "?"]   # the third symbol ':' of the URI alphabet replaced by other usual separators


def units(tier, seed):
    Ts = all_T(tier)
    us = [{"tier": tier, "seed": seed, "Ts": [list(T) for T in ch]} for ch in chunks(Ts, 128)]
    # the same space for |T| <= 2 with another separator character in place of ':' (queries use it too)
    small = [list(T) for T in Ts if len(T) <= 2 and all(len(t) <= 2 for t in T)]
    for sep in OTHER_SEPARATORS:
        for ch in chunks(small, 2):
            us.append({"tier": tier, "seed": seed, "Ts": ch, "sep": sep})
    # CURIE delimiters that are special to string formatting, for |T| <= 2
    for ch in chunks(small, 4):
        us.append({"tier": tier, "seed": seed, "Ts": ch, "delims": ["%", "%3A", "%%", "{}", "%s"]})
    from . import joint

    us.extend(joint.sweep_units(tier))
    return us


def construct(recs, delim, mode, probe=None):
    """Build a real converter from model records in the given order with the given mode.
    ``probe(conv, model_so_far)`` is called after every incremental step (observations between mutations)."""
    if mode == "ctor":
        return Converter([to_record(r) for r in recs], delimiter=delim)
    if mode == "incremental":
        conv = Converter([], delimiter=delim)
        m = Model([], delim)
        if probe:
            probe(conv, m)
        for i, r in enumerate(recs):
            rec = to_record(r)
            if i == 0:
                rec.pattern = "(["   # patterns are not interpreted by URI parsing; an uncompilable one is legal input today
            try:
                conv.add_record(rec)
            except ValueError:
                # a clean rejection (e.g. a future validation of patterns) is not C01's business - but it must leave
                # nothing registered: the model is not extended, and the probes and the final queries say so
                if probe:
                    probe(conv, m)
                conv._c01_effective_model = m
                continue
            m.records.append(r)
            if probe:
                probe(conv, m)
        return conv
    if mode == "ctor+add":
        conv = Converter([to_record(recs[0])], delimiter=delim)
        m = Model([recs[0]], delim)
        if probe:
            probe(conv, m)
        for r in recs[1:]:
            conv.add_record(to_record(r))
            m.records.append(r)
            if probe:
                probe(conv, m)
        return conv
    if mode == "shared-list":
        from ..impl import build_shared_list

        conv = build_shared_list(recs, delim)
        conv._c01_effective_model = True   # "registered" is what the converter's own records list says
        return conv
    if mode == "shallow-copy":
        # a shallow copy taken before the last record arrives through the original, then something added through the copy:
        # both objects share their state, each must answer for what its own records list says
        import copy as _copy

        orig = Converter([to_record(r) for r in recs[:-1]], delimiter=delim)
        orig.compress("zq:1")
        conv = _copy.copy(orig)
        orig.add_record(to_record(recs[-1]))
        conv.add_prefix("zq", "zq:")
        probe_model = model_of(orig)
        if probe:
            probe(orig, Model(probe_model.records, delim))
        conv._c01_effective_model = True
        return conv
    if mode == "first-of-a-chain":
        # the converter was the first input of a chain whose result learnt more URI prefixes (also inside its own ones)
        from ..impl import curies as _c

        conv = Converter([to_record(r) for r in recs], delimiter=delim)
        other = Converter([Record(prefix="zq", uri_prefix="zq:")] + [Record(prefix=f"zq{i}", uri_prefix=r.uri_prefix + "zq") for i, r in enumerate(recs)])
        res = _c.chain([conv, other])
        res.add_prefix("zr", "zr:")
        if recs:
            res.add_prefix(recs[0].prefix, recs[0].uri_prefix + "zr", merge=True)
        return conv
    if mode == "synonyms-late":
        conv = Converter([], delimiter=delim)
        m = Model([], delim)
        for r in recs:
            conv.add_record(Record(prefix=r.prefix, uri_prefix=r.uri_prefix))
            m.records.append(mrec(r.prefix, r.uri_prefix))
        if probe:
            probe(conv, m)
        for i, r in enumerate(recs):
            for s in r.usyn:
                conv.add_record(Record(prefix=r.prefix, uri_prefix=s), merge=True)
                cur = m.records[i]
                m.records[i] = mrec(cur.prefix, cur.uri_prefix, cur.psyn, cur.usyn + (s,))
                if probe:
                    probe(conv, m)
            for s in r.psyn:    # (only the sweep configurations have CURIE prefix synonyms)
                conv.add_record(Record(prefix=s, uri_prefix=r.uri_prefix), merge=True)
                cur = m.records[i]
                m.records[i] = mrec(cur.prefix, cur.uri_prefix, cur.psyn + (s,), cur.usyn)
        return conv
    raise ValueError(mode)


def canon_uri(conv):
    """canon() without the patterns (C01 plants an uncompilable pattern in one construction mode; patterns play no role
    in URI parsing)."""
    d, recs, idx = canon(conv)
    return (d, tuple(r[:4] for r in recs), idx[:3] + idx[4:])


def check_query(conv, model, u, fails, where):
    """All C01 observations for one string."""
    exp = model.parse_uri(u)
    try:
        got = conv.parse_uri(u, return_none=True)
    except Exception as e:  # noqa
        fails.append(("C01/parse_uri-raises", f"{where}: parse_uri({u!r}) raised {type(e).__name__}"))
        return
    got_t = None if got is None else (got[0], got[1])
    if got_t != exp:
        kind = "miss-but-prefix-registered" if got_t is None else "hit-but-nothing-registered" if exp is None else (
            "wrong-owner" if got_t[0] != exp[0] else "wrong-remainder")
        fails.append((f"C01/parse_uri/{kind}", f"{where}: parse_uri({u!r}) = {got_t!r}, longest-prefix reference {exp!r}"))
        return
    expc = None if exp is None else exp[0] + model.delimiter + exp[1]
    gotc = conv.compress(u)
    if gotc != expc:
        fails.append(("C01/compress-differs", f"{where}: compress({u!r}) = {gotc!r}, expected {expc!r}"))
    if exp is not None:
        # the strict entry points join with the converter's delimiter too
        try:
            gs, gss = conv.compress(u, strict=True), conv.compress_strict(u)
        except Exception as e:  # noqa
            gs = gss = f"raised {type(e).__name__}"
        if gs != expc or gss != expc:
            fails.append(("C01/strict-compress-differs", f"{where}: compress({u!r}, strict=True) = {gs!r}, compress_strict = {gss!r}, expected {expc!r}"))
    # the reporting flags change how a miss is reported, never whether or what is matched
    try:
        gp = conv.compress(u, passthrough=True)
    except Exception as e:  # noqa
        gp = f"raised {type(e).__name__}"
    if gp != (expc if exp is not None else u):
        fails.append(("C01/passthrough-compress-differs", f"{where}: compress({u!r}, passthrough=True) = {gp!r}, expected {(expc if exp is not None else u)!r}"))
    if exp is None:
        for kw in ({"strict": True}, {"strict": True, "passthrough": True}):
            try:
                r = conv.compress(u, **kw)
                fails.append(("C01/strict-compress-returns-on-a-miss", f"{where}: compress({u!r}, {kw}) returned {r!r} although no registered URI prefix matches"))
            except ValueError:
                pass
            except Exception as e:  # noqa
                fails.append(("C01/strict-compress-raises-foreign-exception", f"{where}: compress({u!r}, {kw}) raised {type(e).__name__}"))
    else:
        try:
            gsp = conv.compress(u, strict=True, passthrough=True)
        except Exception as e:  # noqa
            gsp = f"raised {type(e).__name__}"
        if gsp != expc:
            fails.append(("C01/strict-compress-differs", f"{where}: compress({u!r}, strict=True, passthrough=True) = {gsp!r}, expected {expc!r}"))
    if conv.is_uri(u) != (exp is not None):
        fails.append(("C01/is_uri-differs", f"{where}: is_uri({u!r}) = {conv.is_uri(u)!r}, expected {exp is not None}"))


def legacy_form(conv, model, u, fails, where):
    with warnings.catch_warnings():
        warnings.simplefilter("ignore")
        got = conv.parse_uri(u)
    exp = model.parse_uri(u)
    if (exp is None and tuple(got) != (None, None)) or (exp is not None and tuple(got) != exp):
        fails.append(("C01/legacy-parse_uri-differs", f"{where}: parse_uri({u!r}) legacy form = {got!r}, expected {exp!r}"))


_QCACHE = {}


def qstrings(n):
    if n not in _QCACHE:
        _QCACHE[n] = list(strings(SIGMA_U + ["z"], n))
    return _QCACHE[n]


def run_case(case, ctx=None):
    """case = {"recs": model records (base order), "delim", "tier"}: base + every permutation x mode."""
    fails = []
    tier = case.get("tier", "quick")
    b = bounds(tier)
    recs = recs_from_json(case["recs"])
    delim = case["delim"]
    model = Model(recs, delim)
    Q = qstrings(b["query_len"])
    P = qstrings(b["probe_len"])
    if "tokens" in case:   # breadth sweep (mc/sweeps.py): the queries are derived from the registered strings
        from .. import sweeps

        Q = P = sweeps.config_queries(model, case["tokens"], case.get("idents", sweeps.IDENTS))
    sep = case.get("sep")
    if sep:   # strings of the case are already written with sep; write the queries with it too
        Q = [q.replace(":", sep) for q in Q]
        P = [q.replace(":", sep) for q in P]
    only = case.get("only")  # replay of one specific (perm, mode, query)
    base = construct(recs, delim, "ctor")
    base_canon = canon_uri(base)
    if ctx is not None:
        ctx.state(hash(base_canon))
        ctx.count("transitions")
    if only is None:
        where = f"records {case['recs']} delimiter {delim!r} (constructor)"
        nmulti = 0
        for u in Q:
            check_query(base, model, u, fails, where)
            if ctx is not None:
                hit = model.longest(u)
                if hit is not None:
                    ctx.outcome((hit[0].prefix, u[len(hit[1]):]))
                    nmatch = sum(1 for r in recs for up in r.uri_prefixes if u.startswith(up))
                    if nmatch >= 2:
                        nmulti += 1
                        first = next(up for r in recs for up in r.uri_prefixes if u.startswith(up))
                        if first != hit[1]:
                            ctx.count("longest_is_not_first_inserted")
        for u in P[:40]:
            legacy_form(base, model, u, fails, where)
        # strings with leading / trailing whitespace are ordinary strings: no trimming anywhere
        for up in sorted(model.all_uri_prefixes()):
            for u in (" " + up + "1", up + "1 ", up + " ", "\t" + up, up + "1\n", "\u00a0" + up + "z", up + "\u3000"):
                check_query(base, model, u, fails, where)
        if ctx is not None:
            ctx.count("evaluations", len(Q) * 3 + 40)
            ctx.count("queries_with_2plus_matching_prefixes", nmulti)
            if nmulti:
                ctx.distinct(hash(base_canon))
        if fails:
            return fails
    perms = list(it.permutations(range(len(recs))))
    if len(recs) > 4:   # sweep configurations with many records: identity, reversal and rotations only
        n = len(recs)
        perms = [tuple(range(n)), tuple(reversed(range(n)))] + [tuple((i + k) % n for i in range(n)) for k in range(1, n)]
    for perm in perms:
        order = [recs[i] for i in perm]
        for mode in MODES:
            if only is not None and (list(perm), mode) != (only["perm"], only["mode"]):
                continue
            if mode == "ctor" and perm == tuple(range(len(recs))) and only is None:
                continue
            where = f"records {recs_to_json(order)} delimiter {delim!r} mode {mode}"
            step_fails = []

            def probe(conv, m, _w=where):
                for u in P:
                    check_query(conv, m, u, step_fails, _w + f" (after {len(m.records)} record(s), synonyms {sum(len(r.usyn) for r in m.records)})")

            try:
                conv = construct(order, delim, mode, probe)
            except Exception as e:  # noqa
                fails.extend(step_fails[:2])
                fails.append(("C01/construction-raises/" + mode, f"{where}: {type(e).__name__}: {e}"))
                continue
            if ctx is not None:
                ctx.count("transitions", len(order) + sum(len(r.usyn) for r in order) if mode != "ctor" else 1)
                ctx.count("orders_and_modes")
            fails.extend(step_fails[:3])
            eff = getattr(conv, "_c01_effective_model", None)
            if eff is not None:
                # after a rejection, "registered" is what the converter's own records list says
                eff = model_of(conv)
            if eff is None and canon_uri(conv) != base_canon:
                fails.append(("C01/state-depends-on-order-or-mode/" + mode, f"{where}: canonical state differs from the constructor's"))
            # thorough: the full query set on every permutation and mode (no reliance on state deduplication) up to 3 URI
            # prefixes; for 4 prefixes the probe set (all strings up to probe_len) on every variant
            nstrings = sum(len(r.uri_prefixes) for r in recs)
            qs = Q if ((b["full_query_all_variants"] and nstrings <= 3) or only is not None) else P
            if eff is not None:
                qs = list(qs) + [up + t for up in sorted(eff.all_uri_prefixes()) for t in ("", "1")]
            for u in qs:
                check_query(conv, eff or model, u, fails, where + (" (compared with the converter's own records list)" if eff else ""))
            if ctx is not None:
                ctx.count("evaluations", len(qs) * 3)
                ctx.count("validated")
            if fails:
                # make the case replayable in isolation
                for i, (sig, msg) in enumerate(fails):
                    fails[i] = (sig, msg, {"perm": list(perm), "mode": mode})
                return fails
    return fails


def run_unit(unit, ctx):
    if unit.get("kind") == "sweep":
        for case in unit["cases"]:
            case = dict(case, tier=unit["tier"])
            fails = run_case(case, ctx)
            ctx.count("sweep_cases")
            for f in fails[:2]:
                c = dict(case)
                if len(f) > 2:
                    c["only"] = f[2]
                ctx.violation(f[0], f[1], c)
        return
    sep = unit.get("sep")
    for T in unit["Ts"]:
        if sep:
            T = [t.replace(":", sep) for t in T]
        for recs in shapes_for(T):
            for delim in unit.get("delims", DELIMS):
                case = {"recs": recs_to_json(recs), "delim": delim, "tier": unit["tier"]}
                if sep:
                    case["sep"] = sep
                fails = run_case(case, ctx)
                ctx.count("configurations")
                if len(ctx.samples) < 1 and len(recs) >= 2:
                    ctx.sample(case)
                for f in fails[:2]:
                    c = dict(case)
                    if len(f) > 2:
                        c["only"] = f[2]
                    ctx.violation(f[0], f[1], c)


def replay(case):
    return [(f[0], f[1]) for f in run_case(case, None)]


def describe(tier):
    b = bounds(tier)
    return {
        "level": "model_checking",
        "rule": "all sets T of <= max_T URI-prefix strings over {x,y,:}^<=uri_len x all partitions into records x all canonical "
        "choices x all record permutations x 4 construction modes x 3 delimiters; each converter queried with all strings "
        "over {x,y,:,z} up to query_len (constructor order) resp. probe_len (other orders/modes; thorough: full) and after "
        "every incremental step; distinct_nontrivial = distinct configurations having a query matched by >= 2 registered URI prefixes",
        "bounds": b,
        "exhaustive": True,
        "assumptions": ["URI alphabet {x,y,:} (+ fresh z in queries; for |T| <= 2 also with #, /, _, =, ? in place of ':'); CURIE prefixes are fixed names a..d (they are not what C01 quantifies over)"],
    }


def required_counters(tier):
    return ["configurations", "orders_and_modes", "queries_with_2plus_matching_prefixes", "longest_is_not_first_inserted", "validated"]
