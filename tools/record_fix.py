#!/venv/bin/python
"""Record a repair of a genuine defect: append 'fixed: ...' to known_findings.json and keep the reverse patch as seeded/revert-F<n>.
usage: record_fix.py <n> <PROP> <fix-commit> "<what failed>" <demo.py> ["<needs to manifest>"]"""
import json, os, shutil, subprocess, sys

n, prop, commit, what, demo = sys.argv[1:6]
needs = sys.argv[6] if len(sys.argv) > 6 else what
short = subprocess.run(["git", "-C", "/repo", "rev-parse", "--short", commit], capture_output=True, text=True).stdout.strip()
p = "/verif/known_findings.json"
d = json.load(open(p))
entry = f"fixed: property={prop} {short} {what}"
if not any(short in e for e in d["fixed"]):
    d["fixed"].append(entry)
json.dump(d, open(p, "w"), indent=1)
open(p, "a").write("\n")
dst = f"/verif/seeded/revert-F{n}"
os.makedirs(dst, exist_ok=True)
diff = subprocess.run(["git", "-C", "/repo", "diff", commit, commit + "~1", "--", "src"], capture_output=True, text=True).stdout
open(dst + "/patch.diff", "w").write(diff)
shutil.copy(demo, dst + "/demo.py")
meta = {"name": f"revert-F{n}", "breaks_property": prop,
        "origin": f"reverse of the repair commit {short} in /repo, i.e. the code as pinned - a genuine defect the existing tests pass with",
        "needs_to_manifest": needs, "confirmed": [], "detected_by": {}}
json.dump(meta, open(dst + "/meta.json", "w"), indent=1)
r = subprocess.run(["/verif/tools/seed_confirm.py", dst], capture_output=True, text=True)
print(entry)
print(r.stdout.strip().splitlines()[-1] if r.stdout.strip() else r.stderr[-300:])
