#!/venv/bin/python
"""False-alarm audit: apply each property-PRESERVING change of /verif/benign/*.diff to a scratch copy of /repo and run every
quick check against it (CURIES_SRC; evidence and replays diverted).  Every check must exit 0.
usage: benign_run.py [--props C01,C05] [patch-name-substring ...]"""
import glob, os, shutil, subprocess, sys, tempfile

args = sys.argv[1:]
props = [f"C{i:02d}" for i in range(1, 21)]
if args and args[0] == "--props":
    props = args[1].split(",")
    args = args[2:]
bad = 0
for patch in sorted(glob.glob("/verif/benign/*.diff")):
    if args and not any(a in patch for a in args):
        continue
    scratch = tempfile.mkdtemp(prefix="ben.", dir="/dev/shm")
    try:
        subprocess.run(["rsync", "-a", "--exclude", ".git", "/repo/", scratch + "/"], check=True)
        r = subprocess.run(["git", "apply", "--whitespace=nowarn", patch], cwd=scratch, capture_output=True, text=True)
        if r.returncode:   # the tree moved on since the change was written (repairs in /repo): three-way merge in a clone that has the base blobs
            shutil.rmtree(scratch, ignore_errors=True)
            subprocess.run(["git", "clone", "-q", "--shared", "/repo", scratch], check=True)
            r = subprocess.run(["git", "apply", "--3way", "--whitespace=nowarn", patch], cwd=scratch, capture_output=True, text=True)
            if not r.returncode and subprocess.run(["git", "diff", "--name-only", "--diff-filter=U"], cwd=scratch, capture_output=True, text=True).stdout.strip():
                r.returncode, r.stderr = 1, "conflicts after three-way merge"
        if r.returncode:
            print(f"{os.path.basename(patch)}: PATCH DOES NOT APPLY: {r.stderr.strip()[:200]}")
            bad += 1
            continue
        for prop in props:
            env = dict(os.environ, CURIES_SRC=scratch + "/src", VERIF_EVIDENCE_DIR=scratch + "/ev", VERIF_REPLAY_DIR=scratch + "/rp", VERIF_FIRST_VIOLATION="1")
            p = subprocess.run(["/verif/check", prop, "--tier", "quick"], env=env, capture_output=True, text=True, cwd="/verif")
            lines = [l for l in p.stdout.splitlines() if l.startswith("violation:")]
            print(f"{os.path.basename(patch)}: {prop} exit={p.returncode} {'silent' if p.returncode == 0 else 'ALARM ' + (lines[0][:300] if lines else p.stdout.strip()[-300:])}", flush=True)
            if p.returncode:
                bad += 1
    finally:
        shutil.rmtree(scratch, ignore_errors=True)
sys.exit(1 if bad else 0)
