#!/venv/bin/python
"""Import a sub-agent's seeded change into /verif/seeded/<name>/ after confirming it independently:
patch applies to a scratch copy of /repo, the repository's baseline still passes there, the demonstration fails
with the change and passes without it.  usage: seed_import.py <PROP> <k> [<srcdir>]"""
import json, os, shutil, subprocess, sys, tempfile

prop, k = sys.argv[1], sys.argv[2]
src = sys.argv[3] if len(sys.argv) > 3 else f"/tmp/wt/{prop}/out/{k}"
name = sys.argv[4] if len(sys.argv) > 4 else f"{prop}-{k}"
dst = f"/verif/seeded/{name}"
patch, demo = os.path.join(src, "patch.diff"), os.path.join(src, "demo.py")
scratch = tempfile.mkdtemp(prefix="seed.", dir="/dev/shm")
ran = []
try:
    subprocess.run(["rsync", "-a", "--exclude", ".git", "/repo/", scratch + "/"], check=True)
    r = subprocess.run(["git", "apply", "--whitespace=nowarn", patch], cwd=scratch, capture_output=True, text=True)
    if r.returncode:   # the tree moved on since the change was written (repairs in /repo): three-way merge in a clone that has the base blobs
        shutil.rmtree(scratch, ignore_errors=True)
        subprocess.run(["git", "clone", "-q", "--shared", "/repo", scratch], check=True)
        r = subprocess.run(["git", "apply", "--3way", "--whitespace=nowarn", patch], cwd=scratch, capture_output=True, text=True)
        if not r.returncode and subprocess.run(["git", "diff", "--name-only", "--diff-filter=U"], cwd=scratch, capture_output=True, text=True).stdout.strip():
            r.returncode, r.stderr = 1, "conflicts after three-way merge"
    ran.append(f"git apply patch.diff (scratch copy of /repo HEAD): rc={r.returncode}")
    if r.returncode:
        print("patch does not apply:", r.stderr); sys.exit(1)
    b = subprocess.run(["/verif/tools/baseline.py", scratch], capture_output=True, text=True)
    ran.append(f"tools/baseline.py <scratch>: rc={b.returncode} {b.stdout.strip().splitlines()[0] if b.stdout else ''}")
    env = dict(os.environ, PYTHONDONTWRITEBYTECODE="1")
    d1 = subprocess.run(["/venv/bin/python", demo], env=dict(env, PYTHONPATH=scratch + "/src"), capture_output=True, text=True, timeout=600)
    d0 = subprocess.run(["/venv/bin/python", demo], env=dict(env, PYTHONPATH="/repo/src"), capture_output=True, text=True, timeout=600)
    ran.append(f"demo.py with change: rc={d1.returncode}; demo.py on /repo: rc={d0.returncode}")
    ok = b.returncode == 0 and d1.returncode != 0 and d0.returncode == 0
    print("\n".join(ran))
    if not ok:
        print("NOT CONFIRMED"); sys.exit(1)
finally:
    shutil.rmtree(scratch, ignore_errors=True)
os.makedirs(dst, exist_ok=True)
shutil.copy(patch, dst + "/patch.diff"); shutil.copy(demo, dst + "/demo.py")
readme = os.path.join(src, "README.md")
needs = open(readme).read() if os.path.exists(readme) else ""
if needs:
    shutil.copy(readme, dst + "/README.md")
meta = {"name": name, "breaks_property": prop, "origin": "independent sub-agent given only the property text and a scratch worktree",
        "needs_to_manifest": needs.strip()[:1500], "confirmed": ran, "repo_head": subprocess.run(["git", "-C", "/repo", "rev-parse", "--short", "HEAD"], capture_output=True, text=True).stdout.strip(),
        "detected_by": {}}
json.dump(meta, open(dst + "/meta.json", "w"), indent=1)
print("imported", dst)
