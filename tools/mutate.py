#!/venv/bin/python
"""Systematic small mutations of the library source (operator / constant / call / statement level), used to measure
how many test-passing changes the checks notice.  Not part of any registered check; results are summarised in DESIGN.md.

  mutate.py gen  <outdir>                 generate mutants as unified diffs + index.json
  mutate.py base <outdir> [-j N]          run the repository's baseline suite on each; mark survivors
  mutate.py check <outdir> [--tier quick] run the mapped property checks (first violation stops a check) on survivors
  mutate.py report <outdir>
All work happens on scratch copies under /dev/shm; /repo is never modified.
"""
import ast
import difflib
import json
import os
import re
import shutil
import subprocess
import sys
import tempfile
from concurrent.futures import ThreadPoolExecutor

SRC = "/repo/src/curies"
FILES = ["api.py", "reconciliation.py", "discovery.py", "triples.py", "w3c.py", "resolver_service.py",
         "mapping_service/api.py", "mapping_service/utils.py", "mapping_service/rdflib_custom.py"]

CMP = {"==": "!=", "!=": "==", "<": "<=", "<=": "<", ">": ">=", ">=": ">", "is not": "is", "is": "is not", "not in": "in", "in": "not in"}
CALLS = {"partition": "rpartition", "rpartition": "partition", "split": "rsplit", "rsplit": "split", "startswith": "endswith",
         "casefold": "lower", "union": "intersection", "difference": "union", "append": "remove", "any": "all", "all": "any",
         "min": "max", "max": "min", "sorted": "list", "longest_prefix_item": "shortest_prefix_item" if False else "longest_prefix_item"}

FUNC_PROPS = [
    (r"^_split$", ["C02", "C08", "C15"]),
    (r"^(ReferenceTuple|Reference|NamableReference|NamedReference|Prefix|Triple)(\.|$)|^_converter_from_validation_info$", ["C15"]),
    (r"^Record\.", ["C04", "C05", "C09"]),
    (r"^_get_duplicate|^DuplicateValueError|^Duplicate", ["C04"]),
    (r"^_get_(prefix_map|reverse_prefix_map|prefix_synmap|pattern_map)$|^Converter\.__init__$", ["C01", "C02", "C04", "C06"]),
    (r"^_prepare$|^Converter\.from_|^upgrade_prefix_map$|^load_", ["C13", "C04", "C14"]),
    (r"^Converter\.(bimap|reverse_bimap)$", ["C04", "C05"]),
    (r"^Converter\.(_match_record|add_record|_merge|_index|add_prefix)$", ["C05", "C09", "C01"]),
    (r"^Converter\.(get_prefixes|get_uri_prefixes)$", ["C04", "C10", "C09"]),
    (r"^Converter\.(format_curie|is_uri|compress_or_standardize|parse|compress_strict|compress|is_curie|expand_or_standardize|expand_strict)$", ["C07", "C08", "C01", "C03"]),
    (r"^Converter\.parse_uri$", ["C01", "C03", "C06", "C07", "C08"]),
    (r"^Converter\.(expand|expand_all|parse_curie|standardize_identifier|expand_reference|expand_pair|expand_pair_all)$", ["C02", "C03", "C08"]),
    (r"^Converter\.standardize_", ["C06", "C08", "C02"]),
    (r"^Converter\.(pd_|file_|_file_helper)", ["C16"]),
    (r"^Converter\.get_record$", ["C02", "C11", "C05"]),
    (r"^Converter\.get_subconverter$|^_eq$|^_in$|^chain$", ["C09", "C10", "C05"]),
    (r"^write_|^_record_to_dict$|^_ensure_path$|^_get_jsonld_context$|^_get_expanded_term$|^_get_shacl_line$|^Converter\.from_shacl$", ["C14"]),
]
FILE_PROPS = {"reconciliation.py": ["C11", "C12", "C10"], "discovery.py": ["C19", "C10"], "triples.py": ["C15"], "w3c.py": ["C20"],
              "resolver_service.py": ["C17"], "mapping_service/api.py": ["C18"], "mapping_service/utils.py": ["C18"], "mapping_service/rdflib_custom.py": ["C18"]}


def props_for(file, func):
    if file != "api.py":
        return FILE_PROPS[file]
    for pat, props in FUNC_PROPS:
        if re.search(pat, func):
            return props
    return ["C02", "C05", "C07"]


class Gen(ast.NodeVisitor):
    def __init__(self, src, file):
        self.src, self.lines, self.file = src, src.splitlines(keepends=True), file
        self.stack, self.out = [], []
        self.doc = set()

    def seg(self, node):
        return ast.get_source_segment(self.src, node)

    def replace(self, lineno, c0, c1, new, op, node_desc):
        line = self.lines[lineno - 1]
        # col offsets are in utf8 bytes
        b = line.encode("utf8")
        newline = (b[:c0] + new.encode("utf8") + b[c1:]).decode("utf8")
        if newline == line:
            return
        self.out.append({"file": self.file, "line": lineno, "func": ".".join(self.stack) or "<module>", "op": op, "desc": node_desc,
                         "old": line.rstrip("\n"), "new": newline.rstrip("\n")})

    def visit_FunctionDef(self, node):
        if node.name.startswith("test"):
            return
        self.stack.append(node.name)
        body = node.body
        if body and isinstance(body[0], ast.Expr) and isinstance(getattr(body[0], "value", None), ast.Constant) and isinstance(body[0].value.value, str):
            body = body[1:]
        # skip overload stubs
        if not any(isinstance(d, ast.Name) and d.id == "overload" for d in node.decorator_list):
            for st in body:
                self.visit(st)
                self.stmt_mutations(st)
        self.stack.pop()

    visit_AsyncFunctionDef = visit_FunctionDef

    def visit_ClassDef(self, node):
        self.stack.append(node.name)
        for st in node.body:
            if isinstance(st, ast.Expr) and isinstance(st.value, ast.Constant):
                continue
            self.visit(st)
        self.stack.pop()

    def stmt_mutations(self, st):
        one_line = st.lineno == st.end_lineno
        if isinstance(st, ast.Return) and st.value is not None and one_line and not (isinstance(st.value, ast.Constant) and st.value.value is None):
            self.replace(st.lineno, st.col_offset, st.end_col_offset, "return None", "return-none", self.seg(st))
        if one_line and (isinstance(st, ast.Expr) and isinstance(st.value, ast.Call) or isinstance(st, (ast.AugAssign,)) or
                         (isinstance(st, ast.Assign) and isinstance(st.targets[0], (ast.Subscript, ast.Attribute)))):
            self.replace(st.lineno, st.col_offset, st.end_col_offset, "pass", "delete-statement", self.seg(st))
        if isinstance(st, (ast.If, ast.While)) and st.test.lineno == st.test.end_lineno:
            t = st.test
            self.replace(t.lineno, t.col_offset, t.end_col_offset, f"not ({self.seg(t)})", "negate-condition", self.seg(t))
        if isinstance(st, (ast.Continue, ast.Break)):
            self.replace(st.lineno, st.col_offset, st.end_col_offset, "pass", "delete-" + type(st).__name__.lower(), "")

    def visit_Compare(self, node):
        self.generic_visit(node)
        if len(node.ops) != 1 or node.lineno != node.end_lineno:
            return
        left, right = node.left, node.comparators[0]
        if left.end_lineno != right.lineno:
            return
        line = self.lines[node.lineno - 1].encode("utf8")
        between = line[left.end_col_offset:right.col_offset].decode("utf8")
        op = between.strip()
        if op in CMP:
            new = between.replace(op, CMP[op], 1)
            self.replace(node.lineno, left.end_col_offset, right.col_offset, new, "compare", self.seg(node))

    def visit_BoolOp(self, node):
        self.generic_visit(node)
        a, b = node.values[0], node.values[1]
        if a.end_lineno != b.lineno:
            return
        line = self.lines[a.end_lineno - 1].encode("utf8")
        between = line[a.end_col_offset:b.col_offset].decode("utf8")
        kw = "and" if isinstance(node.op, ast.And) else "or"
        if kw in between:
            self.replace(a.end_lineno, a.end_col_offset, b.col_offset, between.replace(kw, "or" if kw == "and" else "and", 1), "boolop", self.seg(node))

    def visit_UnaryOp(self, node):
        self.generic_visit(node)
        if isinstance(node.op, ast.Not) and node.lineno == node.end_lineno:
            self.replace(node.lineno, node.col_offset, node.end_col_offset, self.seg(node.operand), "remove-not", self.seg(node))

    def visit_Constant(self, node):
        if node.lineno != node.end_lineno:
            return
        v = node.value
        if v is True or v is False:
            self.replace(node.lineno, node.col_offset, node.end_col_offset, str(not v), "bool-constant", repr(v))
        elif isinstance(v, int) and not isinstance(v, bool):
            self.replace(node.lineno, node.col_offset, node.end_col_offset, str(v + 1), "int-constant", repr(v))
            if v > 0:
                self.replace(node.lineno, node.col_offset, node.end_col_offset, str(v - 1), "int-constant", repr(v))
        elif isinstance(v, str) and self.file == "w3c.py" and len(v) > 3 and ("[" in v or "\\" in v):
            for a, b in (("*", "+"), ("?", ""), ("_", ""), ("\\-", ""), ("0-9", "1-9"), ("A-Za-z", "a-z"), ("^", ""), ("$", "")):
                if a in v:
                    seg = self.seg(node)
                    self.replace(node.lineno, node.col_offset, node.end_col_offset, seg.replace(a, b, 1), "regex", v)

    def visit_Call(self, node):
        self.generic_visit(node)
        f = node.func
        name = f.attr if isinstance(f, ast.Attribute) else f.id if isinstance(f, ast.Name) else None
        if name in CALLS and CALLS[name] != name and f.end_lineno == f.lineno:
            c1 = f.end_col_offset
            c0 = c1 - len(name.encode())
            self.replace(f.lineno, c0, c1, CALLS[name], "call-swap", f"{name}(...)")

    def visit_Subscript(self, node):
        self.generic_visit(node)
        sl = node.slice
        if isinstance(sl, ast.Slice) and sl.lower is not None and sl.lower.lineno == sl.lower.end_lineno:
            lo = sl.lower
            self.replace(lo.lineno, lo.col_offset, lo.end_col_offset, f"{self.seg(lo)} + 1", "slice-lower", self.seg(node))

    def visit_keyword(self, node):
        self.generic_visit(node)


def gen(outdir):
    os.makedirs(outdir, exist_ok=True)
    index = []
    for file in FILES:
        src = open(os.path.join(SRC, file), encoding="utf8").read()
        g = Gen(src, file)
        g.visit(ast.parse(src))
        seen = set()
        for m in g.out:
            key = (m["line"], m["new"])
            if key in seen:
                continue
            seen.add(key)
            new_src_lines = src.splitlines(keepends=True)
            new_src_lines[m["line"] - 1] = m["new"] + "\n"
            new_src = "".join(new_src_lines)
            try:
                ast.parse(new_src)
            except SyntaxError:
                continue
            mid = f"m{len(index):04d}"
            rel = f"src/curies/{file}"
            diff = "".join(difflib.unified_diff(src.splitlines(keepends=True), new_src_lines, f"a/{rel}", f"b/{rel}"))
            open(os.path.join(outdir, mid + ".diff"), "w").write(diff)
            m["id"] = mid
            m["props"] = props_for(file, m["func"])
            index.append(m)
    json.dump(index, open(os.path.join(outdir, "index.json"), "w"), indent=0)
    print(f"{len(index)} mutants")


def scratch_with(diff):
    d = tempfile.mkdtemp(prefix="mu.", dir="/dev/shm")
    subprocess.run(["rsync", "-a", "--exclude", ".git", "--exclude", "docs", "/repo/", d + "/"], check=True)
    r = subprocess.run(["patch", "-s", "-p1", "-i", diff], cwd=d, capture_output=True, text=True)
    if r.returncode:
        shutil.rmtree(d, ignore_errors=True)
        return None
    return d


def base_one(outdir, m):
    d = scratch_with(os.path.join(outdir, m["id"] + ".diff"))
    if d is None:
        return m["id"], "patch-failed"
    try:
        try:
            r = subprocess.run(["/verif/tools/baseline.py", d], capture_output=True, text=True, timeout=300)
            return m["id"], "survives" if r.returncode == 0 else "killed-by-tests"
        except subprocess.TimeoutExpired:
            return m["id"], "killed-by-tests(timeout)"
    finally:
        shutil.rmtree(d, ignore_errors=True)


def base(outdir, jobs):
    index = json.load(open(os.path.join(outdir, "index.json")))
    todo = [m for m in index if "baseline" not in m]
    with ThreadPoolExecutor(jobs) as ex:
        for i, (mid, res) in enumerate(ex.map(lambda m: base_one(outdir, m), todo)):
            next(m for m in index if m["id"] == mid)["baseline"] = res
            if i % 50 == 0:
                json.dump(index, open(os.path.join(outdir, "index.json"), "w"), indent=0)
                print(i, "/", len(todo), flush=True)
    json.dump(index, open(os.path.join(outdir, "index.json"), "w"), indent=0)
    report(outdir)


def check(outdir, tier):
    index = json.load(open(os.path.join(outdir, "index.json")))
    todo = [m for m in index if m.get("baseline") == "survives" and "checks" not in m]
    for i, m in enumerate(todo):
        d = scratch_with(os.path.join(outdir, m["id"] + ".diff"))
        try:
            res = {}
            for prop in m["props"]:
                env = dict(os.environ, CURIES_SRC=d + "/src", VERIF_EVIDENCE_DIR=d + "/ev", VERIF_REPLAY_DIR=d + "/rp", VERIF_FIRST_VIOLATION="1")
                try:
                    p = subprocess.run(["/verif/check", prop, "--tier", tier], env=env, capture_output=True, text=True, cwd="/verif", timeout=1800)
                    sig = re.findall(r"^violation: (\S+):", p.stdout, re.M)
                    res[prop] = {"exit": p.returncode, "sig": sig[:2]}
                except subprocess.TimeoutExpired:
                    res[prop] = {"exit": "timeout", "sig": []}
                if res[prop]["exit"] == 1:
                    break   # detected; the other mapped checks are not needed for the score
            m["checks"] = res
            m["detected"] = any(r["exit"] == 1 for r in res.values())
        finally:
            shutil.rmtree(d, ignore_errors=True)
        print(f"{i + 1}/{len(todo)} {m['id']} {m['file']}:{m['line']} {m['func']} [{m['op']}] -> {'DETECTED' if m['detected'] else 'not detected'} { {k: v['exit'] for k, v in res.items()} }", flush=True)
        if i % 10 == 0:
            json.dump(index, open(os.path.join(outdir, "index.json"), "w"), indent=0)
    json.dump(index, open(os.path.join(outdir, "index.json"), "w"), indent=0)
    report(outdir)


def report(outdir):
    index = json.load(open(os.path.join(outdir, "index.json")))
    from collections import Counter

    c = Counter(m.get("baseline", "?") for m in index)
    print("baseline:", dict(c))
    surv = [m for m in index if m.get("baseline") == "survives"]
    done = [m for m in surv if "detected" in m]
    print(f"survivors checked: {len(done)}/{len(surv)}; detected {sum(m['detected'] for m in done)}")
    for m in done:
        if not m["detected"]:
            print(f"  NOT DETECTED {m['id']} {m['file']}:{m['line']} {m['func']} [{m['op']}] {m['old'].strip()[:70]!r} -> {m['new'].strip()[:70]!r}  checks={ {k: v['exit'] for k, v in m['checks'].items()} }")


if __name__ == "__main__":
    cmd, outdir = sys.argv[1], sys.argv[2]
    if cmd == "gen":
        gen(outdir)
    elif cmd == "base":
        base(outdir, int(sys.argv[sys.argv.index("-j") + 1]) if "-j" in sys.argv else 8)
    elif cmd == "check":
        check(outdir, sys.argv[sys.argv.index("--tier") + 1] if "--tier" in sys.argv else "quick")
    else:
        report(outdir)
