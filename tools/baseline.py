#!/venv/bin/python
"""Run the repository's pinned baseline suite in a given checkout and compare with BASELINE.json.

usage: baseline.py [repo_dir]     (default /repo)
exit 0 iff every test in BASELINE.stable_pass passed.
"""
import json, os, subprocess, sys, tempfile
import xml.etree.ElementTree as ET

repo = os.path.abspath(sys.argv[1]) if len(sys.argv) > 1 else "/repo"
base = json.load(open("/root/.vp/BASELINE.json"))
stable = set(base["stable_pass"])
fd, xml = tempfile.mkstemp(suffix=".xml")
os.close(fd)
env = dict(os.environ)
env.pop("CURIES_VERIF", None)
# make the checkout under test importable ahead of the editable /repo/src entry
env["PYTHONPATH"] = os.path.join(repo, "src")
env["PYTHONDONTWRITEBYTECODE"] = "1"
cmd = ["/venv/bin/python", "-m", "pytest", "-ra", "-q", "-p", "no:cacheprovider", "--timeout=900",
       "--continue-on-collection-errors", f"--junitxml={xml}"]
p = subprocess.run(cmd, cwd=repo, env=env, capture_output=True, text=True)
passed = set()
try:
    for tc in ET.parse(xml).getroot().iter("testcase"):
        ok = not any(ch.tag in ("failure", "error", "skipped") for ch in tc)
        if ok:
            passed.add(f"{tc.get('classname')}::{tc.get('name')}")
finally:
    os.unlink(xml)
missing = sorted(stable - passed)
print(f"baseline: {len(stable & passed)}/{len(stable)} stable tests pass in {repo}")
for m in missing:
    print("  NOT PASSING:", m)
if missing:
    print(p.stdout[-3000:])
sys.exit(1 if missing else 0)
