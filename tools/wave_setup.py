#!/usr/bin/env python3
"""Prepare a round of seeded-change sub-agents: one scratch git worktree of /repo per property under /tmp/wt/<PROP>,
each with PROPERTY.md (the property text + one line per earlier change to avoid) and nothing from /verif; the shared
/tmp/wt/TASK.md and a copy of the baseline runner.  usage: wave_setup.py <round-note-file> [PROP ...]
Worktrees are removed afterwards with:  git -C /repo worktree remove --force /tmp/wt/<PROP>"""
import json, os, shutil, subprocess, sys

VERIF = os.path.dirname(os.path.dirname(os.path.abspath(__file__)))
note = open(sys.argv[1]).read()
props = sys.argv[2:] or [f"C{i:02d}" for i in range(1, 21)]
os.makedirs("/tmp/wt/tools", exist_ok=True)
shutil.copy(os.path.join(VERIF, "tools", "baseline.py"), "/tmp/wt/tools/baseline.py")
task = open(os.path.join(VERIF, "tools", "TASK.template.md")).read()
open("/tmp/wt/TASK.md", "w").write(task + "\n" + note)
P = {json.loads(l)["id"]: json.loads(l) for l in open(os.path.join(VERIF, "properties.jsonl"))}
for p in props:
    wt = f"/tmp/wt/{p}"
    if not os.path.isdir(wt):
        subprocess.run(["git", "-C", "/repo", "worktree", "add", "--detach", wt, "HEAD"], check=True, capture_output=True)
    d = P[p]
    lines = [f"# Property {p}: {d['title']}", "", "## Statement", d["statement"], "", "## Quantifier", d["quantifier"]["text"], "",
             "## Why the existing tests cannot settle it", d["why_tests_cant"], "", "## Anchors", json.dumps(d["anchors"], indent=1), "",
             "## Earlier changes (do NOT repeat these mechanisms; find something else)"]
    for name in sorted(os.listdir(os.path.join(VERIF, "seeded"))):
        mp = os.path.join(VERIF, "seeded", name, "meta.json")
        if not os.path.exists(mp):
            continue
        m = json.load(open(mp))
        if m.get("breaks_property") != p:
            continue
        txt = " ".join(m.get("needs_to_manifest", "").split())
        lines.append(f"* {txt[:260]}")
    open(os.path.join(wt, "PROPERTY.md"), "w").write("\n".join(lines) + "\n")
    shutil.rmtree(os.path.join(wt, "out"), ignore_errors=True)
    print("prepared", wt)
