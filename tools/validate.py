#!/opt/veriftools/pyvenv/bin/python
"""Validate MANIFEST.json and every evidence file against the schemas (run with python3-vt: has jsonschema)."""
import glob, json, sys
import jsonschema
ok = True
m = json.load(open("/verif/MANIFEST.json"))
jsonschema.validate(m, json.load(open("/root/.vp/MANIFEST.schema.json")))
es = json.load(open("/root/.vp/EVIDENCE.schema.json"))
claimed = {c["property_id"] for c in m["checks"]}
for pid in sorted(claimed):
    f = f"/verif/evidence/{pid}.json"
    try:
        ev = json.load(open(f))
        jsonschema.validate(ev, es)
        c = ev["coverage"]
        print(f"{pid}: ok tier={ev['tier']} states={c.get('states')} transitions={c.get('transitions')} validated={c.get('traces_validated_against_impl')} evals={c.get('evaluations')} nontrivial={c.get('distinct_nontrivial')} wall={ev['wall_s']}")
    except Exception as e:
        ok = False
        print(f"{pid}: INVALID {type(e).__name__}: {str(e)[:300]}")
ids = [json.loads(l)["id"] for l in open("/verif/properties.jsonl")]
na = {x["property_id"] for x in m.get("not_applicable", [])}
missing = [i for i in ids if i not in claimed and i not in na]
if missing:
    ok = False; print("neither claimed nor not_applicable:", missing)
print("manifest ok; claimed", len(claimed), "not_applicable", len(na))
sys.exit(0 if ok else 1)
