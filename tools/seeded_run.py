#!/venv/bin/python
"""Run checks against seeded changes.  usage: seeded_run.py [--tier T] [--props C05,C01] [--update] <seed-name>...
For each seeded change: scratch copy of /repo (outside /repo and /verif) + patch, run the checks with
CURIES_SRC pointing at it (evidence/replays diverted to the scratch dir), print exit codes and signatures.
--update records the outcome in seeded/<name>/meta.json (detected_by)."""
import json, os, re, shutil, subprocess, sys, tempfile

args = sys.argv[1:]
tier, props, update = "quick", None, False
names = []
while args:
    a = args.pop(0)
    if a == "--tier": tier = args.pop(0)
    elif a == "--props": props = args.pop(0).split(",")
    elif a == "--update": update = True
    else: names.append(a)
if not names:
    names = sorted(os.listdir("/verif/seeded"))
names = [n for n in names if os.path.isdir(f"/verif/seeded/{n}")]
for name in names:
    d = f"/verif/seeded/{name}"
    meta = json.load(open(d + "/meta.json"))
    if meta.get("superseded_by") and not props:
        print(f"{name}: SUPERSEDED by {meta['superseded_by'][:60]}...")
        continue
    plist = props or [meta["breaks_property"]]
    scratch = tempfile.mkdtemp(prefix="mut.", dir="/dev/shm")
    try:
        subprocess.run(["rsync", "-a", "--exclude", ".git", "/repo/", scratch + "/"], check=True)
        r = subprocess.run(["git", "apply", "--whitespace=nowarn", d + "/patch.diff"], cwd=scratch, capture_output=True, text=True)
        if r.returncode:   # the tree moved on since the change was written (repairs in /repo): three-way merge in a clone that has the base blobs
            shutil.rmtree(scratch, ignore_errors=True)
            subprocess.run(["git", "clone", "-q", "--shared", "/repo", scratch], check=True)
            r = subprocess.run(["git", "apply", "--3way", "--whitespace=nowarn", d + "/patch.diff"], cwd=scratch, capture_output=True, text=True)
            if not r.returncode and subprocess.run(["git", "diff", "--name-only", "--diff-filter=U"], cwd=scratch, capture_output=True, text=True).stdout.strip():
                r.returncode, r.stderr = 1, "conflicts after three-way merge"
        if r.returncode:
            print(f"{name}: PATCH DOES NOT APPLY: {r.stderr.strip()[:200]}")
            continue
        for prop in plist:
            if not os.path.exists(f"/verif/mc/props/{prop.lower()}.py"):
                print(f"{name}: {prop}: (no check yet)")
                continue
            env = dict(os.environ, CURIES_SRC=scratch + "/src", VERIF_EVIDENCE_DIR=scratch + "/ev", VERIF_REPLAY_DIR=scratch + "/rp")
            p = subprocess.run(["/verif/check", prop, "--tier", tier], env=env, capture_output=True, text=True, cwd="/verif")
            sigs = re.findall(r"^violation: (\S+):", p.stdout, re.M)
            extra = ""
            if p.returncode not in (0, 1):
                extra = " | " + " ".join(p.stdout.strip().splitlines()[-2:])[:300] + p.stderr.strip()[-300:]
            print(f"{name}: {prop} tier={tier} exit={p.returncode} {'DETECTED' if p.returncode == 1 else 'MISSED' if p.returncode == 0 else 'HARNESS-ERROR'} {sigs[:3]}{extra}")
            if update:
                meta.setdefault("detected_by", {})[f"{prop}/{tier}"] = {"exit": p.returncode, "signatures": sigs[:5]}
        if update:
            json.dump(meta, open(d + "/meta.json", "w"), indent=1)
    finally:
        shutil.rmtree(scratch, ignore_errors=True)
