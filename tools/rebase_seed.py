#!/venv/bin/python
"""Help rebasing a seeded patch whose context was changed by a later repair in /repo.
usage: rebase_seed.py show <name>     clone /repo to /dev/shm/rb/<name>, apply the patch three-way, print the conflict blocks
       rebase_seed.py done <name>     take the (hand-resolved) clone: write seeded/<name>/patch.diff (original kept as patch.orig.diff), confirm it"""
import os, shutil, subprocess, sys

cmd, name = sys.argv[1], sys.argv[2]
d = f"/dev/shm/rb/{name}"
seed = f"/verif/seeded/{name}"
if cmd == "show":
    shutil.rmtree(d, ignore_errors=True)
    os.makedirs("/dev/shm/rb", exist_ok=True)
    subprocess.run(["git", "clone", "-q", "--shared", "/repo", d], check=True)
    # the current patch first (an earlier rebase already resolved the older conflicts); the original only if that cannot be merged at all
    r = subprocess.run(["git", "apply", "--3way", "--whitespace=nowarn", seed + "/patch.diff"], cwd=d, capture_output=True)
    if r.returncode and not subprocess.run(["git", "diff", "--name-only", "--diff-filter=U"], cwd=d, capture_output=True, text=True).stdout.strip() and os.path.exists(seed + "/patch.orig.diff"):
        subprocess.run(["git", "apply", "--3way", "--whitespace=nowarn", seed + "/patch.orig.diff"], cwd=d, capture_output=True)
    files = subprocess.run(["git", "diff", "--name-only", "--diff-filter=U"], cwd=d, capture_output=True, text=True).stdout.split()
    for f in files:
        lines = open(os.path.join(d, f)).read().split("\n")
        on = False
        for i, l in enumerate(lines, 1):
            if l.startswith("<<<<<<< "):
                on = True
                print(f"--- {f}:{i}")
            if on:
                print(l)
            if l.startswith(">>>>>>> "):
                on = False
else:
    left = subprocess.run(["grep", "-rn", "-E", "^(<<<<<<<|>>>>>>>) ", "src"], cwd=d, capture_output=True, text=True).stdout
    if left:
        print("unresolved:", left)
        sys.exit(1)
    if not os.path.exists(seed + "/patch.orig.diff"):
        shutil.copy(seed + "/patch.diff", seed + "/patch.orig.diff")
    diff = subprocess.run(["git", "diff", "HEAD", "--", "src"], cwd=d, capture_output=True, text=True).stdout
    open(seed + "/patch.diff", "w").write(diff)
    r = subprocess.run(["/verif/tools/seed_confirm.py", seed], capture_output=True, text=True)
    print(r.stdout.strip().splitlines()[-1] if r.stdout.strip() else r.stderr[-300:])
    shutil.rmtree(d, ignore_errors=True)
