#!/bin/bash
# tools/mutant.sh <patch.diff> [--baseline] [--demo demo.py] [--tier T] <PROP>...
# Applies the patch to a scratch copy of /repo's working tree (outside /repo and /verif), optionally runs the
# repository's baseline suite and the demonstration there, then runs the named checks against it via CURIES_SRC.
# The scratch copy is always removed. Evidence files are restored afterwards (a mutant run is not evidence).
set -u
patch="$(realpath "$1")"; shift
baseline=0; demo=""; tier=quick
while [[ $# -gt 0 ]]; do
  case "$1" in
    --baseline) baseline=1; shift;;
    --demo) demo="$(realpath "$2")"; shift 2;;
    --tier) tier="$2"; shift 2;;
    *) break;;
  esac
done
scratch="$(mktemp -d /dev/shm/mut.XXXXXX)"
trap 'rm -rf "$scratch"' EXIT
rsync -a --exclude .git /repo/ "$scratch/"
if ! (cd "$scratch" && git apply --whitespace=nowarn "$patch" 2>/dev/null || patch -s -p1 < "$patch"); then
  echo "MUTANT: patch does not apply"; exit 3
fi
rc=0
if [[ $baseline == 1 ]]; then
  /verif/tools/baseline.py "$scratch" | tail -3 || { echo "MUTANT: baseline FAILS (killed by the existing tests)"; exit 4; }
fi
if [[ -n "$demo" ]]; then
  if PYTHONPATH="$scratch/src" /venv/bin/python "$demo" >/dev/null 2>&1; then echo "MUTANT: demo passes WITH the change (?!)"; else echo "MUTANT: demo fails with the change (expected)"; fi
  if PYTHONPATH="/repo/src" /venv/bin/python "$demo" >/dev/null 2>&1; then echo "MUTANT: demo passes on /repo (expected)"; else echo "MUTANT: demo FAILS on /repo (?!)"; fi
fi
save="$(mktemp -d /dev/shm/ev.XXXXXX)"; cp -a /verif/evidence/. "$save/" 2>/dev/null
for prop in "$@"; do
  out="$(cd /verif && CURIES_SRC="$scratch/src" ./check "$prop" --tier "$tier" 2>&1)"; code=$?
  echo "$out" | grep -E "^(violation|VIOLATION|KNOWN|harness|HARNESS)" | head -5
  echo "MUTANT: $prop exit=$code"
done
cp -a "$save/." /verif/evidence/ 2>/dev/null; rm -rf "$save"
exit 0
