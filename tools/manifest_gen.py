#!/usr/bin/env python3
"""Generate /verif/MANIFEST.json from the table below; a property is claimed once its check module exists."""
import json
import os

VERIF = os.path.dirname(os.path.dirname(os.path.abspath(__file__)))

NOTE_COMMON = (
    "Bounded: only the stated alphabets/lengths/depths are covered (small-scope argument in DESIGN.md section 5). Trusted base: "
    "CPython 3.12, the hand-written explorer in /verif/mc (self-tested), the reference model mc/refmodel.py (unit-tested, shares "
    "no code with curies). Checks import /repo/src directly (asserted at start-up). The text above describes the core enumeration; construction "
    "modes (copies, loaders, derived and shared objects), call orders, argument kinds and special inputs added after rounds 6-10 of seeded changes and "
    "three bug hunts are listed in DESIGN.md 12.4 / 12.6; the rule, bounds and counters of the evidence file are generated from the code and authoritative."
)

T = {
    "C01": ("exhaustive enumeration of URI-prefix configurations x permutations x construction modes x query strings; lock-step reference model (linear startswith scan)",
            "Every set of <=3 (quick) / <=4 (thorough) URI prefixes over a 3-symbol alphabet, every partition into records, every record permutation and four construction modes, every delimiter, every query string up to length 4/5 is executed on the real Converter and compared with a linear-scan reference; order independence is checked by state equality across permutations/modes.", "6/C01"),
    "C02": ("exhaustive enumeration of CURIE-prefix configurations x delimiters x CURIE strings; lock-step reference model",
            "All small converters over CURIE prefixes incl. the empty prefix and case variants, all delimiters in {':','/','::'}, every prefix x identifier query and all short strings are expanded on the real code (expand, expand_pair, expand_reference, expand_all, expand_pair_all, is_curie) and compared with the reference.", "6/C02"),
    "C03": ("exhaustive enumeration of joint CURIE/URI configurations x all short strings; round-trip laws evaluated on every case",
            "All 1-2 (quick) / 3 (thorough) record converters over a joint alphabet with nested URI prefixes and the empty prefix; for every recognised URI and CURIE the losslessness laws and, on prefix-free configurations, the inverse-bijection laws are evaluated on the real code.", "6/C03"),
    "C04": ("exhaustive enumeration of record sequences (with repetition, all orders) through the constructor and every loader; clash-set oracle",
            "Every sequence of 1..3 records over a 3x3 string alphabet with <=1 synonym per side is constructed; success/failure, exception class and the reported duplicates are compared with a nested-loop clash oracle; the same collections are pushed through every loader that can express them.", "6/C04"),
    "C05": ("explicit-state BFS over add_record/add_prefix histories on the real Converter with state deduplication; lock-step reference model + differential oracle against a freshly built converter; second model in TLA+ explored by TLC with every edge of its state graph replayed against the implementation",
            "Breadth-first exploration of every history up to depth 3 (quick) / 4 (thorough) of add_record/add_prefix operations (all flag combinations, overlapping/bridging/case-variant records) from 5 initial converters; every transition is executed on fresh real objects with the query battery observed after every step. Independently, TLC explores models/AddRecord.tla over the same alphabet (depth 2/3); all edges of the dumped state graph are replayed on the real Converter and TLC's reachable converters must equal those reached through the implementation.", "6/C05, 12.2"),
    "C06": ("exhaustive enumeration of configurations x prefixes/CURIEs/URIs; reference model + idempotence/meaning-preservation laws on every case",
            "Same joint universe as C03 plus incrementally reached states; standardize_prefix/_curie/_uri are compared with the reference and the idempotence and meaning-preservation laws are evaluated on every string.", "6/C06"),
    "C07": ("exhaustive enumeration of configurations with strings that are both CURIE and URI x all short strings; agreement of derived operations with the primitive parsers",
            "For every configuration of the joint universe (built to contain strings that are simultaneously CURIEs and URIs) and every short string, is_uri/is_curie/parse/compress_or_standardize/expand_or_standardize/format_curie/*_strict are checked against the two primitive parsers and the reference precedence rule.", "6/C07"),
    "C08": ("exhaustive enumeration of 14 functions x all flag combinations x configurations x strings; mode-matrix oracle",
            "Every listed function is called in every strict x passthrough combination on every string of the universe; the default result defines what passthrough and strict must do; any exception that is not a curies-defined ValueError in strict mode is a violation.", "6/C08"),
    "C09": ("exhaustive enumeration of ordered pairs/triples of small converters x case modes, and of prefix subsets; lock-step reference fold",
            "All ordered pairs of valid <=2-record converters (both case modes), triples of 1-record converters, and every prefix subset for get_subconverter are executed and compared with the reference priority-union / restriction.", "6/C09"),
    "C10": ("explicit-state exploration of derivation + follow-up mutation histories with a frame invariant on every input converter after every step",
            "Worlds of input converters (built by constructor and incrementally); every derivation (chain incl. singleton chains, get_subconverter, remap_*, rewire, discover) with small argument alphabets followed by 0..2 mutations of the derived converter, second-level derivations and the same derivation repeated; full ordered snapshot of every non-target converter compared before/after each step.", "6/C10"),
    "C11": ("exhaustive enumeration of remapping dictionaries (all key orders) over known/synonym/unknown names x base converters; postcondition oracle",
            "Every dictionary of <=3 (quick) / <=4 (thorough) pairs over 7 names in every key order is applied to 3 base converters; rejection conditions and the no-loss postconditions are evaluated on every result.", "6/C11"),
    "C12": ("exhaustive enumeration of injective URI remappings / rewirings (all key orders) x base converters; postcondition oracle",
            "Every injective dictionary of <=3/4 pairs for remap_uri_prefixes and rewire over canonical/synonym/foreign/unknown strings; TransitiveError iff keys and values intersect; per-record retention and idempotence postconditions.", "6/C12"),
    "C13": ("exhaustive enumeration of loader inputs (all dictionary orders, object/str/Path) with a denotational oracle per format",
            "All small prefix maps, priority maps, reverse maps, extended prefix maps, JSON-LD contexts and rdflib bindings in every insertion order, loaded as object, str path and Path, compared with the denotation written in the reference model.", "6/C13"),
    "C14": ("exhaustive enumeration of single-field perturbations over a character-class alphabet x writers x options; write/read round trip on real files",
            "Converters in which one field at a time ranges over all strings of length <=2 over a class alphabet are written with every writer/option combination to real files and read back.", "6/C14"),
    "C15": ("exhaustive enumeration of reference objects (4 classes) with all pairs and triples; algebraic laws + file round trips",
            "All references over a prefix x identifier x name x class alphabet; parse/print/JSON round trips, equality/hash/order laws on all pairs and triples, converter-context validation, write_triples/read_triples on real files.", "6/C15"),
    "C16": ("exhaustive enumeration of small tables x columns x flags x operations, with every position of the first failing row (fault enumeration); scalar-call oracle and byte-for-byte atomicity",
            "All tables of 0..2/3 rows over a cell alphabet (incl. cells needing CSV quoting, CR, BOM), short and blank rows at every position, three header kinds, every flag combination and operation, data frames with non-default labels and indexes, and bulk-merge-bulk histories; expected column computed by scalar calls; when a scalar call raises (or a row is malformed) at any position, the file bytes must be unchanged.", "6/C16"),
    "C17": ("exhaustive enumeration of request paths x converters x delimiters x both frameworks (in-process test clients)",
            "Every path prefix+delimiter+identifier with 1..3 segments over a segment alphabet against Flask and FastAPI apps; status/Location compared with Converter.expand and across frameworks.", "6/C17"),
    "C18": ("exhaustive enumeration of SPARQL query shapes x URIs x transports, and of Accept headers up to 3 elements with optional whitespace; reference negotiation per RFC 7231",
            "All (converter, URI, direction, VALUES placement, predicate) combinations on the graph, Flask GET/POST and FastAPI GET; all Accept headers of <=3 elements over 10 media types x q-values x OWS placements.", "6/C18"),
    "C19": ("exhaustive enumeration of URI multisets in every order x delimiters x cutoffs x converters x hash seeds; reference grouping oracle",
            "Every sub-multiset of <=4 URIs from a 20-string alphabet in every order with repetitions, every parameter combination, under PYTHONHASHSEED 0,1,2; result compared with a reference grouping and required to be order/repetition/seed independent.", "6/C19"),
    "C20": ("exhaustive enumeration of all strings up to length 5 (quick) / 7 (thorough) over one representative per character class; hand-written recogniser as reference",
            "Every string up to the length bound over a 16-symbol class alphabet is fed to both validators and compared with an explicit character-loop recogniser of the documented grammar.", "6/C20"),
}


SWEEP = (" In addition a breadth sweep (DESIGN.md 12.3): every token of a 226-token inventory (all printable ASCII, control and "
         "Unicode-space characters, letters with special normalisation / case folding, tokens special to URLs, formats and escaping) in "
         "every string role of one fixed scenario, near-miss variants of every registered string as queries, twin names registered side by "
         "side, and count-scaled scenarios (up to 130 records / clashes / prefixes).")
SWEPT = {"C01", "C02", "C03", "C04", "C06", "C07", "C08", "C09", "C12", "C13", "C14", "C15", "C19"}


def main():
    checks, na = [], []
    for pid in sorted(T):
        technique, text, ref = T[pid]
        if pid in SWEPT:
            text += SWEEP
        if pid == "C20":
            text += " In addition every code point of the Basic Multilingual Plane is placed at every position of 10 templates."
        if os.path.exists(os.path.join(VERIF, "mc", "props", pid.lower() + ".py")):
            checks.append({
                "property_id": pid,
                "quick_cmd": f"./check {pid} --tier quick",
                "thorough_cmd": f"./check {pid} --tier thorough",
                "evidence_file": f"/verif/evidence/{pid}.json",
                "replay_cmd_template": f"./check {pid} --replay {{path}}",
                "engine": "mc-explorer",
                "level_claimed": {"category": "model_checking", "text": text, "design_ref": f"DESIGN.md section {ref}"},
                "level_note": NOTE_COMMON,
                "technique": "bounded exhaustive model checking of the implementation: " + technique,
            })
        else:
            na.append({"property_id": pid, "reason": "not claimed yet: the bounded-exhaustive check for this property is still under construction (the technique applies; see DESIGN.md section 6)"})
    manifest = {
        "version": 1,
        "setup_cmd": "/venv/bin/python -B -c \"import sys; sys.path.insert(0, '/repo/src'); import curies, pytrie, pydantic; print('ok', curies.__file__)\"",
        "hooks": {
            "guard": "CURIES_VERIF",
            "enable": "no hooks are compiled in: the checks import /repo/src directly and observe public attributes from outside; ./check exports CURIES_VERIF=1 but no line of /repo reads it",
            "baseline_off_cmd": "cd /repo && /venv/bin/python -m pytest -ra -q -p no:cacheprovider --timeout=900 --continue-on-collection-errors",
            "source_commits": [],
            "add_only": True,
        },
        "engines": [{
            "name": "mc-explorer",
            "path": "/verif/mc",
            "serves_properties": [c["property_id"] for c in checks],
            "kind_free_text": "hand-written explicit-state / bounded-exhaustive explorer for Python: enumerates configurations, inputs and operation histories completely within stated bounds, executes each on the real curies objects and compares with a reference model in lock-step",
        }],
        "checks": checks,
        "notes": "All checks: exit 0 = held on everything explored; exit 1 + 'VIOLATION property=<id> replay=<path>'; exit 2 = harness error (no verdict). "
                 "Genuine defects found on the pinned tree (30) were repaired by 'fix:' commits in /repo and are recorded in /verif/known_findings.json under 'fixed'; four genuine deviations that are not small safe repairs are listed there under 'open' and printed as KNOWN-FINDING by ./check C03, ./check C17, ./check C18 and ./check C19 (DESIGN.md 12.4). "
                 "Seeded property-breaking changes and which checks catch them: /verif/seeded/ and DESIGN.md sections 10 and 12.6.",
        "not_applicable": na,
    }
    with open(os.path.join(VERIF, "MANIFEST.json"), "w") as f:
        json.dump(manifest, f, indent=1)
        f.write("\n")
    print(f"claimed: {[c['property_id'] for c in checks]}")


if __name__ == "__main__":
    main()
