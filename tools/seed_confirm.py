#!/venv/bin/python
"""Confirm a seeded change in place: patch applies to a scratch copy of /repo, baseline passes there, demo fails with
the change and passes without it. Updates meta.json 'confirmed'. usage: seed_confirm.py <seeded-dir>..."""
import json, os, shutil, subprocess, sys, tempfile
rc_all = 0
for d in sys.argv[1:]:
    d = os.path.abspath(d)
    patch, demo = d + "/patch.diff", d + "/demo.py"
    scratch = tempfile.mkdtemp(prefix="seed.", dir="/dev/shm")
    ran = []
    try:
        subprocess.run(["rsync", "-a", "--exclude", ".git", "/repo/", scratch + "/"], check=True)
        r = subprocess.run(["git", "apply", "--whitespace=nowarn", patch], cwd=scratch, capture_output=True, text=True)
        if r.returncode:   # the tree moved on since the change was written (repairs in /repo): three-way merge in a clone that has the base blobs
            shutil.rmtree(scratch, ignore_errors=True)
            subprocess.run(["git", "clone", "-q", "--shared", "/repo", scratch], check=True)
            r = subprocess.run(["git", "apply", "--3way", "--whitespace=nowarn", patch], cwd=scratch, capture_output=True, text=True)
            if not r.returncode and subprocess.run(["git", "diff", "--name-only", "--diff-filter=U"], cwd=scratch, capture_output=True, text=True).stdout.strip():
                r.returncode, r.stderr = 1, "conflicts after three-way merge"
        ran.append(f"git apply patch.diff (scratch copy of /repo HEAD): rc={r.returncode}")
        b = subprocess.run(["/verif/tools/baseline.py", scratch], capture_output=True, text=True)
        ran.append(f"tools/baseline.py <scratch>: rc={b.returncode} {b.stdout.strip().splitlines()[0] if b.stdout else ''}")
        env = dict(os.environ, PYTHONDONTWRITEBYTECODE="1")
        d1 = subprocess.run(["/venv/bin/python", demo], env=dict(env, PYTHONPATH=scratch + "/src:/verif/stubs"), capture_output=True, text=True, timeout=600)
        d0 = subprocess.run(["/venv/bin/python", demo], env=dict(env, PYTHONPATH="/repo/src:/verif/stubs"), capture_output=True, text=True, timeout=600)
        ran.append(f"demo.py with change: rc={d1.returncode}; demo.py on /repo: rc={d0.returncode}")
        ok = r.returncode == 0 and b.returncode == 0 and d1.returncode != 0 and d0.returncode == 0
    finally:
        shutil.rmtree(scratch, ignore_errors=True)
    meta = json.load(open(d + "/meta.json"))
    meta["confirmed"] = ran
    meta["repo_head"] = subprocess.run(["git", "-C", "/repo", "rev-parse", "--short", "HEAD"], capture_output=True, text=True).stdout.strip()
    json.dump(meta, open(d + "/meta.json", "w"), indent=1)
    print(os.path.basename(d), "CONFIRMED" if ok else "NOT CONFIRMED", "|", ran[-1], "|" if ok else d0.stderr[-300:] + d1.stderr[-200:])
    rc_all |= 0 if ok else 1
sys.exit(rc_all)
