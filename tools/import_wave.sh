#!/bin/bash
# tools/import_wave.sh <PROP> <offset>: import /tmp/wt/<PROP>/out/{1,2,3} as <PROP>-(k+offset), then run the property's check
prop=$1; off=$2
for k in 1 2 3; do
  [ -d /tmp/wt/$prop/out/$k ] || continue
  n=$((k+off))
  /verif/tools/seed_import.py $prop $k /tmp/wt/$prop/out/$k $prop-$n 2>&1 | grep -v conda | tail -2 | tr '\n' ' '; echo
done
names=""; for k in 1 2 3; do n=$((k+off)); [ -d /verif/seeded/$prop-$n ] && names="$names $prop-$n"; done
[ -n "$names" ] || { echo "$prop: nothing imported"; exit 0; }
/verif/tools/seeded_run.py --update $names 2>&1 | grep -v conda | cut -c1-330
